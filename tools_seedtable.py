#!/usr/bin/env python3
"""Render the seeded-changes table of DESIGN.md (between the SEEDS markers) from seeded/*/meta.json and seeded/RESULTS.json."""
import json, os, re
base = '/verif/seeded'
res = json.load(open(os.path.join(base, 'RESULTS.json'))) if os.path.exists(os.path.join(base, 'RESULTS.json')) else {}
rows = ["| seed | change (file) | current verdict | failing obligations reported |", "|------|---------------|-----------------|------------------------------|"]
for d in sorted(os.listdir(base)):
    mp = os.path.join(base, d, 'meta.json')
    if not os.path.exists(mp):
        continue
    m = json.load(open(mp))
    r = res.get(d, {})
    verdict = {1: "**detected** (exit 1)", 0: "missed (exit 0)", 2: "undecided (exit 2)"}.get(r.get('exit'), m.get('result', '?'))
    files = ", ".join(os.path.basename(f) for f in m.get('files', [])) or m.get('crates', '')
    obl = (r.get('obligations') or m.get('caught_by') or '').strip(';').replace(';', '<br>')
    if r.get('exit') == 2:
        obl = r.get('undecided', '')
    rows.append("| %s | %s (%s) | %s | %s |" % (d, m.get('summary', '').replace('|', '/')[:150], files, verdict, obl[:300]))
table = "\n".join(rows)
p = '/verif/DESIGN.md'
s = open(p).read()
if 'SEEDS_TABLE' in s:
    s = s.replace('SEEDS_TABLE', '<!-- SEEDS:BEGIN -->\n' + table + '\n<!-- SEEDS:END -->')
else:
    s = re.sub(r'<!-- SEEDS:BEGIN -->.*?<!-- SEEDS:END -->', '<!-- SEEDS:BEGIN -->\n' + table + '\n<!-- SEEDS:END -->', s, flags=re.S)
open(p, 'w').write(s)
print(table)
