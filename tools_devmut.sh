#!/bin/bash
# usage: tools_devmut.sh <unit> <function> <file-rel> <sed-expr>  — mutate the dev snapshot (/var/tmp/repo-dev), verify one function of one unit, revert
D=/var/tmp/repo-dev
cd $D && [ -z "$(git status --porcelain --untracked-files=no)" ] || { echo "dev snapshot dirty"; exit 9; }
sed -i "$4" "$D/$3"
if [ -z "$(git -C $D status --porcelain --untracked-files=no)" ]; then echo "mutation did not change anything"; exit 8; fi
cd /verif && VERIF_REPO=$D ./check gen $1 2>&1 | tail -1 | grep -v "_dbg.rs"
cd /verif/.cache/gen && verus $1_dbg.rs --rlimit 120 --triggers-mode silent --verify-root --verify-function "$2" 2>&1 | grep -E "^error|^verification" | head -3
git -C $D checkout -- .
