#!/usr/bin/env python3
"""usage: tools_mkmeta.py <seed-id> <crates> <caught_by text>   — writes seeded/<id>/meta.json from notes.md / patch.diff"""
import json, os, re, sys
sid, crates, caught = sys.argv[1], sys.argv[2], sys.argv[3]
d = os.path.join(os.path.dirname(os.path.abspath(__file__)), "seeded", sid)
notes = open(os.path.join(d, "notes.md")).read().splitlines()
title = next((l.lstrip("# ").strip() for l in notes if l.strip()), sid)
files = re.findall(r"^\+\+\+ b/(\S+)", open(os.path.join(d, "patch.diff")).read(), re.M)
prop = sid.split("-")[0]
meta = {"property": prop, "summary": title, "files": files, "crates": crates,
        "confirmed_by_me": "tools_seed.sh in the agent's scratch worktree: demo passes on clean HEAD, fails with patch.diff; the touched crates' existing tests pass with patch.diff",
        "ran": f"git -C /repo apply patch.diff; ./check {prop}; git -C /repo checkout -- .",
        "result": "detected", "caught_by": caught, "round": 2}
json.dump(meta, open(os.path.join(d, "meta.json"), "w"), indent=1)
print(sid, title)
