//! tiny deterministic PRNG (splitmix64) – no external crates
pub struct Rng(pub u64);
impl Rng {
    pub fn new(seed: u64) -> Self {
        Rng(seed.wrapping_mul(0x9E3779B97F4A7C15) ^ 0xD1B54A32D192ED03)
    }
    pub fn next(&mut self) -> u64 {
        self.0 = self.0.wrapping_add(0x9E3779B97F4A7C15);
        let mut z = self.0;
        z = (z ^ (z >> 30)).wrapping_mul(0xBF58476D1CE4E5B9);
        z = (z ^ (z >> 27)).wrapping_mul(0x94D049BB133111EB);
        z ^ (z >> 31)
    }
    pub fn below(&mut self, n: u64) -> u64 {
        if n == 0 { 0 } else { self.next() % n }
    }
    pub fn pick<'a, T>(&mut self, xs: &'a [T]) -> &'a T {
        &xs[self.below(xs.len() as u64) as usize]
    }
    pub fn boundary_u64(&mut self) -> u64 {
        const B: [u64; 14] = [0, 1, 2, 0x7f, 0x80, 0xff, 0x100, 0x7fff_ffff, 0x8000_0000, 0xffff_fffe, 0xffff_ffff,
            0x1_0000_0000, u64::MAX - 1, u64::MAX];
        match self.below(4) {
            0 => *self.pick(&B),
            1 => self.pick(&B).wrapping_add(self.below(3)).wrapping_sub(1),
            2 => self.below(16),
            _ => self.next(),
        }
    }
    pub fn boundary_u32(&mut self) -> u32 {
        const B: [u32; 9] = [0, 1, 2, 0x7f, 0x80, 0xffff, 0x7fff_ffff, u32::MAX - 1, u32::MAX];
        match self.below(4) {
            0 => *self.pick(&B),
            1 => self.pick(&B).wrapping_add(self.below(3) as u32).wrapping_sub(1),
            2 => self.below(16) as u32,
            _ => self.next() as u32,
        }
    }
    pub fn bytes(&mut self, n: usize) -> Vec<u8> {
        (0..n).map(|_| self.next() as u8).collect()
    }
}
