//! native-eval: ground obligations decided by evaluating the real code exhaustively over a finite index set.
use num_bigint::BigUint;
use serde_json::{json, Value};

pub struct EvalResult {
    pub obligations: u64,
    pub discharged: u64,
    pub failures: Vec<Value>,
    pub samples: Vec<Value>,
    pub exhaustive: bool,
}

/// closed form named in opcodes.rs / C04: 100 * 17^i / 16^i rounded down to three significant digits
fn cost_closed_form(i: u32) -> u64 {
    let v = BigUint::from(100u32) * BigUint::from(17u32).pow(i) / BigUint::from(16u32).pow(i);
    let mut p = BigUint::from(1000u32);
    while p < v {
        p *= 10u32;
    }
    p /= 1000u32;
    let r = (&v / &p) * &p;
    u64::try_from(r).expect("fits u64")
}

pub fn cost_table() -> EvalResult {
    use chia_consensus::opcodes::compute_unknown_condition_cost;
    let mut res = EvalResult { obligations: 0, discharged: 0, failures: vec![], samples: vec![], exhaustive: true };
    let closed: Vec<u64> = (0..256u32).map(cost_closed_form).collect();
    for op in 0..=u16::MAX {
        res.obligations += 1;
        let got = compute_unknown_condition_cost(op);
        let want = if op < 256 { 0 } else { closed[(op & 0xff) as usize] };
        if got == want {
            res.discharged += 1;
        } else if res.failures.len() < 5 {
            res.failures.push(json!({"id": format!("cost_table/op={op}"), "function": "compute_unknown_condition_cost",
                "message": format!("compute_unknown_condition_cost({op}) = {got}, closed form 100*17^i/16^i (3 significant digits, i = op & 0xff) = {want}"),
                "clause": "COSTS[i] == round3(100*17^i/16^i)",
                "cex": {"unit": "eval", "function": "cost_table", "input": {"op": op}}}));
        }
    }
    for op in [256u16, 257, 511, 0x1234, 0xffff] {
        res.samples.push(json!({"obligation": format!("compute_unknown_condition_cost({op}) == {}", closed[(op & 0xff) as usize]), "backend": "native-eval"}));
    }
    res
}

pub fn replay_cost(input: &Value) -> (bool, String) {
    use chia_consensus::opcodes::compute_unknown_condition_cost;
    let op = input["op"].as_u64().unwrap_or(0) as u16;
    let got = compute_unknown_condition_cost(op);
    let want = if op < 256 { 0 } else { cost_closed_form((op & 0xff) as u32) };
    (got != want, format!("compute_unknown_condition_cost({op}) = {got}; closed form = {want}"))
}

/// PRECOMPUTED_HASHES[i] == sha256(1 ‖ canon(i)) for all 24 entries, and tree_hash on the small-atom node agrees
pub fn tree_hash_precomputed() -> EvalResult {
    use clvm_utils::{tree_hash, tree_hash_atom, PRECOMPUTED_HASHES};
    let mut res = EvalResult { obligations: 0, discharged: 0, failures: vec![], samples: vec![], exhaustive: true };
    for i in 0..PRECOMPUTED_HASHES.len() {
        res.obligations += 1;
        let canon = crate::t_int_encoders::canon(i as u64);
        let mut s = chia_sha2::Sha256::new();
        s.update([1u8]);
        s.update(&canon);
        let want = s.finalize();
        let mut a = clvmr::Allocator::new();
        let n = a.new_atom(&canon).unwrap();
        let got_table = PRECOMPUTED_HASHES[i].to_bytes();
        let got_fn = tree_hash(&a, n).to_bytes();
        let got_atom = tree_hash_atom(&canon).to_bytes();
        if got_table == want && got_fn == want && got_atom == want {
            res.discharged += 1;
        } else {
            res.failures.push(json!({"id": format!("tree_hash_precomputed/i={i}"), "function": "PRECOMPUTED_HASHES",
                "message": format!("PRECOMPUTED_HASHES[{i}] = {}, tree_hash(small atom {i}) = {}, sha256(01 ‖ canon({i})) = {}",
                    hex::encode(got_table), hex::encode(got_fn), hex::encode(want)),
                "clause": "PRECOMPUTED_HASHES[i] == sha256(1 ‖ canon(i))",
                "cex": {"unit": "eval", "function": "tree_hash_precomputed", "input": {"i": i}}}));
        }
        if i < 3 {
            res.samples.push(json!({"obligation": format!("PRECOMPUTED_HASHES[{i}] == sha256(01 ‖ canon({i})) == {}", hex::encode(want)), "backend": "native-eval"}));
        }
    }
    res
}

pub fn replay_precomputed(input: &Value) -> (bool, String) {
    let r = tree_hash_precomputed();
    let i = input["i"].as_u64().unwrap_or(0);
    let bad = r.failures.iter().any(|f| f["cex"]["input"]["i"].as_u64() == Some(i));
    (bad, format!("PRECOMPUTED_HASHES[{i}] {}", if bad { "differs from sha256(01 ‖ canon(i))" } else { "matches" }))
}

/// Ground obligations for C15 on fixed inputs (closed terms): the cache-assisted verdict equals the plain
/// aggregate verdict, in particular "never valid if any key is the point at infinity".
pub fn bls_cache_ground() -> EvalResult {
    use chia_bls::{aggregate, aggregate_verify, sign, BlsCache, PublicKey, SecretKey, Signature};
    let mut res = EvalResult { obligations: 0, discharged: 0, failures: vec![], samples: vec![], exhaustive: true };
    let sk1 = SecretKey::from_seed(&[1u8; 32]);
    let sk2 = SecretKey::from_seed(&[2u8; 32]);
    let pk1 = sk1.public_key();
    let pk2 = sk2.public_key();
    let inf = PublicKey::default();
    let s1 = sign(&sk1, b"hello");
    let s2 = sign(&sk2, b"world");
    let both = aggregate([&s1, &s2]);
    let cases: Vec<(&str, Vec<(PublicKey, Vec<u8>)>, Signature, bool)> = vec![
        ("valid-two-pairs", vec![(pk1, b"hello".to_vec()), (pk2, b"world".to_vec())], both.clone(), true),
        ("tampered-message", vec![(pk1, b"hellO".to_vec()), (pk2, b"world".to_vec())], both.clone(), false),
        ("missing-pair", vec![(pk1, b"hello".to_vec())], both.clone(), false),
        ("empty-list-default-sig", vec![], Signature::default(), true),
        ("infinity-key-extra-pair", vec![(pk1, b"hello".to_vec()), (inf, b"x".to_vec())], s1.clone(), false),
        ("infinity-key-only", vec![(inf, b"x".to_vec())], Signature::default(), false),
    ];
    for (name, pairs, sig, want) in cases {
        for warm in [false, true] {
            res.obligations += 1;
            let plain = aggregate_verify(&sig, pairs.iter().map(|(p, m)| (p, m.as_slice())));
            let cache = BlsCache::default();
            if warm {
                let _ = cache.aggregate_verify(pairs.iter().map(|(p, m)| (p, m.as_slice())), &sig);
            }
            let cached = cache.aggregate_verify(pairs.iter().map(|(p, m)| (p, m.as_slice())), &sig);
            let ok = plain == want && cached == want;
            if ok {
                res.discharged += 1;
            } else {
                res.failures.push(json!({"id": format!("bls_cache_ground/{name}/{}", if warm { "warm" } else { "cold" }),
                    "function": "BlsCache::aggregate_verify",
                    "message": format!("case {name} ({} cache): aggregate_verify = {plain}, BlsCache::aggregate_verify = {cached}, required verdict = {want}", if warm { "warm" } else { "cold" }),
                    "clause": "cache-assisted verdict == plain verdict; never valid if any key is the point at infinity",
                    "cex": {"unit": "eval", "function": "bls_cache_ground", "input": {"case": name, "warm": warm}}}));
            }
            if res.samples.len() < 4 {
                res.samples.push(json!({"obligation": format!("{name}: plain == cached == {want}"), "backend": "native-eval"}));
            }
        }
    }
    res
}

pub fn replay_bls(input: &Value) -> (bool, String) {
    let r = bls_cache_ground();
    let case = input["case"].as_str().unwrap_or("");
    let warm = input["warm"].as_bool().unwrap_or(false);
    for f in &r.failures {
        if f["cex"]["input"]["case"].as_str() == Some(case) && f["cex"]["input"]["warm"].as_bool() == Some(warm) {
            return (true, f["message"].as_str().unwrap_or("").to_string());
        }
    }
    (false, format!("case {case} agrees"))
}

/// Ground obligations for C18 on fixed histories: an operation that returns Ok must leave a blob that passes
/// its own integrity check and reloads; duplicate keys/hashes must be refused.
pub fn datalayer_ground() -> EvalResult {
    use chia_datalayer::{Hash, InsertLocation, KeyId, MerkleBlob, ValueId};
    use chia_protocol::Bytes32;
    let mut res = EvalResult { obligations: 0, discharged: 0, failures: vec![], samples: vec![], exhaustive: true };
    let h = |i: u8| Hash(Bytes32::new([i; 32]));
    let mut case = |name: &str, f: &dyn Fn() -> Result<(MerkleBlob, bool), String>| {
        res.obligations += 1;
        // f returns the blob after the history and whether the last operation reported Ok
        let verdict = match f() {
            Err(e) => Err(e),
            Ok((blob, last_ok)) => {
                let integrity = blob.check_integrity();
                let reload = MerkleBlob::new(blob.read_blob().clone());
                if last_ok && (integrity.is_err() || reload.is_err()) {
                    Err(format!("last operation returned Ok but check_integrity = {:?}, reload ok = {}", integrity.err().map(|e| e.to_string()), reload.is_ok()))
                } else { Ok(()) }
            }
        };
        match verdict {
            Ok(()) => { res.discharged += 1; }
            Err(msg) => res.failures.push(json!({"id": format!("datalayer_ground/{name}"), "function": name,
                "message": format!("{name}: {msg}"), "clause": "Ok ==> check_integrity passes and the blob reloads",
                "cex": {"unit": "eval", "function": "datalayer_ground", "input": {"case": name}}})),
        }
        if res.samples.len() < 4 { res.samples.push(json!({"obligation": format!("history {name}: Ok ==> integrity"), "backend": "native-eval"})); }
    };
    case("batch_insert_duplicate_key", &|| {
        let mut b = MerkleBlob::new(vec![]).map_err(|e| e.to_string())?;
        let items = vec![((KeyId(1), ValueId(1)), h(1)), ((KeyId(2), ValueId(2)), h(2)), ((KeyId(3), ValueId(3)), h(3)),
                         ((KeyId(3), ValueId(4)), h(4)), ((KeyId(5), ValueId(5)), h(5))];
        let r = b.batch_insert(items);
        Ok((b, r.is_ok()))
    });
    case("batch_insert_duplicate_hash", &|| {
        let mut b = MerkleBlob::new(vec![]).map_err(|e| e.to_string())?;
        let items = vec![((KeyId(1), ValueId(1)), h(1)), ((KeyId(2), ValueId(2)), h(2)), ((KeyId(3), ValueId(3)), h(3)),
                         ((KeyId(4), ValueId(4)), h(3)), ((KeyId(5), ValueId(5)), h(5))];
        let r = b.batch_insert(items);
        Ok((b, r.is_ok()))
    });
    case("batch_insert_distinct", &|| {
        let mut b = MerkleBlob::new(vec![]).map_err(|e| e.to_string())?;
        let items = (1..=7u8).map(|i| ((KeyId(i as i64), ValueId(i as i64)), h(i))).collect();
        let r = b.batch_insert(items);
        Ok((b, r.is_ok()))
    });
    case("upsert_to_existing_hash", &|| {
        let mut b = MerkleBlob::new(vec![]).map_err(|e| e.to_string())?;
        for i in 1..=3u8 { b.insert(KeyId(i as i64), ValueId(i as i64), &h(i), InsertLocation::Auto {}).map_err(|e| e.to_string())?; }
        let r = b.upsert(KeyId(1), ValueId(9), &h(2));
        Ok((b, r.is_ok()))
    });
    case("insert_duplicate_key_refused", &|| {
        let mut b = MerkleBlob::new(vec![]).map_err(|e| e.to_string())?;
        b.insert(KeyId(1), ValueId(1), &h(1), InsertLocation::Auto {}).map_err(|e| e.to_string())?;
        let r = b.insert(KeyId(1), ValueId(2), &h(2), InsertLocation::Auto {});
        if r.is_ok() { return Err("duplicate key accepted by insert".into()); }
        Ok((b, false))
    });
    res
}

pub fn replay_datalayer(input: &Value) -> (bool, String) {
    let r = datalayer_ground();
    let case = input["case"].as_str().unwrap_or("");
    for f in &r.failures {
        if f["cex"]["input"]["case"].as_str() == Some(case) {
            return (true, f["message"].as_str().unwrap_or("").to_string());
        }
    }
    (false, format!("history {case}: holds"))
}

/// Ground obligation for C14: every operation on a successfully decoded value completes without panicking.
/// Fixed input: a version-2 ProofOfSpace whose proof bytes do not validate.
pub fn pos_v2_hash() -> EvalResult {
    use chia_protocol::ProofOfSpace;
    use chia_traits::Streamable;
    let mut res = EvalResult { obligations: 0, discharged: 0, failures: vec![], samples: vec![], exhaustive: true };
    // challenge (32) ‖ pool_public_key = None (00) ‖ prefix 0b11 ‖ pool_contract_puzzle_hash (32) ‖ plot_public_key (48, generator)
    // ‖ plot_index u16 ‖ meta_group u8 ‖ strength u8 ‖ proof: u32 length 4 ‖ 4 junk bytes
    let g1 = chia_bls::PublicKey::generator().to_bytes();
    let mut bytes = vec![0u8; 32];
    bytes.push(0);
    bytes.push(0b11);
    bytes.extend_from_slice(&[7u8; 32]);
    bytes.extend_from_slice(&g1);
    bytes.extend_from_slice(&[0, 1, 2, 3]);
    bytes.extend_from_slice(&[0, 0, 0, 4, 0xde, 0xad, 0xbe, 0xef]);
    res.obligations += 1;
    let verdict: Result<(), String> = match ProofOfSpace::from_bytes(&bytes) {
        Err(_) => Ok(()), // rejected at decode: fine
        Ok(v) => {
            let re = v.to_bytes().map_err(|e| format!("re-encode failed: {e}"));
            match re {
                Err(e) => Err(e),
                Ok(b) if b != bytes => Err("re-encoding differs from the decoded bytes".into()),
                Ok(_) => {
                    let prev = std::panic::take_hook();
                    std::panic::set_hook(Box::new(|_| {}));
                    let r = std::panic::catch_unwind(std::panic::AssertUnwindSafe(|| v.hash()));
                    std::panic::set_hook(prev);
                    match r { Ok(_) => Ok(()), Err(_) => Err("from_bytes returned Ok and to_bytes reproduces the input, but hash() panics".into()) }
                }
            }
        }
    };
    match verdict {
        Ok(()) => res.discharged += 1,
        Err(m) => res.failures.push(json!({"id": "pos_v2_hash/junk-proof-126-bytes", "function": "ProofOfSpace::update_digest",
            "message": format!("ProofOfSpace v2 with a non-validating 4-byte proof ({} bytes, hex {}): {m}", bytes.len(), hex::encode(&bytes)),
            "clause": "every operation on a successfully decoded value completes without panicking",
            "cex": {"unit": "eval", "function": "pos_v2_hash", "input": {"bytes": hex::encode(&bytes)}}})),
    }
    res.samples.push(json!({"obligation": "decode(v2 PoS with junk proof) is Err, or hash() of the decoded value returns", "backend": "native-eval"}));
    res
}

pub fn replay_pos(_input: &Value) -> (bool, String) {
    let r = pos_v2_hash();
    match r.failures.first() {
        Some(f) => (true, f["message"].as_str().unwrap_or("").to_string()),
        None => (false, "decode rejects the value or hash() returns".into()),
    }
}

/// Ground obligations for C09 on fixed generators: the trusted-block helper reports the same additions (coin and
/// hint) and removals as full validation.  Generators are quoted spend lists `(q . ((parent puzzle amount solution)))`
/// whose puzzle is `(q . conditions)`, one per memo/hint shape.
pub fn trusted_paths_ground() -> EvalResult {
    use chia_bls::Signature;
    use chia_consensus::additions_and_removals::additions_and_removals;
    use chia_consensus::consensus_constants::TEST_CONSTANTS;
    use chia_consensus::flags::ConsensusFlags;
    use chia_consensus::owned_conditions::OwnedSpendBundleConditions;
    use chia_consensus::run_block_generator::run_block_generator2;
    use clvmr::serde::node_to_bytes;
    use clvmr::{Allocator, NodePtr};
    let mut res = EvalResult { obligations: 0, discharged: 0, failures: vec![], samples: vec![], exhaustive: true };

    fn list(a: &mut Allocator, items: &[NodePtr]) -> NodePtr {
        let mut r = a.nil();
        for i in items.iter().rev() { r = a.new_pair(*i, r).unwrap(); }
        r
    }
    // memo shapes: (name, builder of the argument tail after the amount)
    let shapes: Vec<(&str, Box<dyn Fn(&mut Allocator) -> NodePtr>)> = vec![
        ("no-memo", Box::new(|a| a.nil())),
        ("hint-32-bytes", Box::new(|a| { let h = a.new_atom(&[9u8; 32]).unwrap(); let m = list(a, &[h]); list(a, &[m]) })),
        ("hint-short", Box::new(|a| { let h = a.new_atom(&[1, 2, 3]).unwrap(); let m = list(a, &[h]); list(a, &[m]) })),
        ("hint-33-bytes", Box::new(|a| { let h = a.new_atom(&[9u8; 33]).unwrap(); let m = list(a, &[h]); list(a, &[m]) })),
        ("empty-first-memo", Box::new(|a| { let h = a.nil(); let m = list(a, &[h]); list(a, &[m]) })),
        ("empty-memo-list", Box::new(|a| { let m = a.nil(); list(a, &[m]) })),
        ("memo-is-pair", Box::new(|a| { let x = a.new_atom(&[5]).unwrap(); let p = a.new_pair(x, x).unwrap(); let m = list(a, &[p]); list(a, &[m]) })),
        ("memo-list-is-atom", Box::new(|a| { let m = a.new_atom(&[7u8; 32]).unwrap(); list(a, &[m]) })),
    ];
    for (name, build_tail) in shapes {
        res.obligations += 1;
        let mut a = Allocator::new();
        let op = a.new_atom(&[51]).unwrap();
        let ph = a.new_atom(&[7u8; 32]).unwrap();
        let amt = a.new_atom(&[1]).unwrap();
        let tail = build_tail(&mut a);
        let t2 = a.new_pair(amt, tail).unwrap();
        let t1 = a.new_pair(ph, t2).unwrap();
        let cond = a.new_pair(op, t1).unwrap();
        let conds = list(&mut a, &[cond]);
        let q = a.new_atom(&[1]).unwrap();
        let puzzle = a.new_pair(q, conds).unwrap();
        let parent = a.new_atom(&[3u8; 32]).unwrap();
        let coin_amount = a.new_atom(&[100]).unwrap();
        let solution = a.nil();
        let spend = list(&mut a, &[parent, puzzle, coin_amount, solution]);
        let spends = list(&mut a, &[spend]);
        let outer = list(&mut a, &[spends]);
        let generator = a.new_pair(q, outer).unwrap();
        let prog = node_to_bytes(&a, generator).unwrap();
        let flags = ConsensusFlags::DONT_VALIDATE_SIGNATURE;
        let blocks: [&[u8]; 0] = [];
        let full = run_block_generator2(&prog, blocks, 11_000_000_000, flags, &Signature::default(), None, &TEST_CONSTANTS);
        let fast = additions_and_removals(&prog, blocks, flags, &TEST_CONSTANTS);
        let verdict: Result<(), String> = match (full, fast) {
            (Ok((a2, conds)), Ok((adds, rems))) => {
                let owned = OwnedSpendBundleConditions::from(&a2, conds);
                let mut want_adds = vec![];
                let mut want_rems = vec![];
                for s in &owned.spends {
                    want_rems.push(hex::encode(s.coin_id));
                    for (ph, am, hint) in &s.create_coin {
                        want_adds.push((hex::encode(ph), *am, hint.as_ref().map(|h| hex::encode(h.as_ref()))));
                    }
                }
                let got_adds: Vec<_> = adds.iter().map(|(c, h)| (hex::encode(c.puzzle_hash), c.amount, h.as_ref().map(|h| hex::encode(h.as_ref())))).collect();
                let got_rems: Vec<_> = rems.iter().map(|(id, _)| hex::encode(id)).collect();
                if got_adds != want_adds { Err(format!("additions differ: additions_and_removals = {got_adds:?}, validated conditions = {want_adds:?}")) }
                else if got_rems != want_rems { Err(format!("removals differ: {got_rems:?} vs {want_rems:?}")) }
                else { Ok(()) }
            }
            (Err(_), _) => Ok(()), // not a block full validation accepts: outside the statement
            (Ok(_), Err(e)) => Err(format!("full validation accepts but additions_and_removals fails: {e:?}")),
        };
        match verdict {
            Ok(()) => res.discharged += 1,
            Err(m) => res.failures.push(json!({"id": format!("trusted_paths_ground/{name}"), "function": "additions_and_removals",
                "message": format!("generator with CREATE_COIN memo shape {name} (hex {}): {m}", hex::encode(&prog)),
                "clause": "additions_and_removals == additions/hints of the validated conditions",
                "cex": {"unit": "eval", "function": "trusted_paths_ground", "input": {"case": name}}})),
        }
        if res.samples.len() < 4 { res.samples.push(json!({"obligation": format!("memo shape {name}: fast path == full validation"), "backend": "native-eval"})); }
    }
    res
}

pub fn replay_trusted(input: &Value) -> (bool, String) {
    let r = trusted_paths_ground();
    let case = input["case"].as_str().unwrap_or("");
    for f in &r.failures {
        if f["cex"]["input"]["case"].as_str() == Some(case) { return (true, f["message"].as_str().unwrap_or("").to_string()); }
    }
    (false, format!("memo shape {case}: fast path agrees with full validation"))
}

pub fn run(task: &str) -> Option<EvalResult> {
    match task {
        "trusted_paths_ground" => Some(trusted_paths_ground()),
        "pos_v2_hash" => Some(pos_v2_hash()),
        "datalayer_ground" => Some(datalayer_ground()),
        "bls_cache_ground" => Some(bls_cache_ground()),
        "cost_table" => Some(cost_table()),
        "tree_hash_precomputed" => Some(tree_hash_precomputed()),
        _ => None,
    }
}
