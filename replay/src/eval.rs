//! native-eval: ground obligations decided by evaluating the real code exhaustively over a finite index set.
use num_bigint::BigUint;
use serde_json::{json, Value};

pub struct EvalResult {
    pub obligations: u64,
    pub discharged: u64,
    pub failures: Vec<Value>,
    pub samples: Vec<Value>,
    pub exhaustive: bool,
}

/// closed form named in opcodes.rs / C04: 100 * 17^i / 16^i rounded down to three significant digits
fn cost_closed_form(i: u32) -> u64 {
    let v = BigUint::from(100u32) * BigUint::from(17u32).pow(i) / BigUint::from(16u32).pow(i);
    let mut p = BigUint::from(1000u32);
    while p < v {
        p *= 10u32;
    }
    p /= 1000u32;
    let r = (&v / &p) * &p;
    u64::try_from(r).expect("fits u64")
}

pub fn cost_table() -> EvalResult {
    use chia_consensus::opcodes::compute_unknown_condition_cost;
    let mut res = EvalResult { obligations: 0, discharged: 0, failures: vec![], samples: vec![], exhaustive: true };
    let closed: Vec<u64> = (0..256u32).map(cost_closed_form).collect();
    for op in 0..=u16::MAX {
        res.obligations += 1;
        let got = compute_unknown_condition_cost(op);
        let want = if op < 256 { 0 } else { closed[(op & 0xff) as usize] };
        if got == want {
            res.discharged += 1;
        } else if res.failures.len() < 5 {
            res.failures.push(json!({"id": format!("cost_table/op={op}"), "function": "compute_unknown_condition_cost",
                "message": format!("compute_unknown_condition_cost({op}) = {got}, closed form 100*17^i/16^i (3 significant digits, i = op & 0xff) = {want}"),
                "clause": "COSTS[i] == round3(100*17^i/16^i)",
                "cex": {"unit": "eval", "function": "cost_table", "input": {"op": op}}}));
        }
    }
    for op in [256u16, 257, 511, 0x1234, 0xffff] {
        res.samples.push(json!({"obligation": format!("compute_unknown_condition_cost({op}) == {}", closed[(op & 0xff) as usize]), "backend": "native-eval"}));
    }
    res
}

pub fn replay_cost(input: &Value) -> (bool, String) {
    use chia_consensus::opcodes::compute_unknown_condition_cost;
    let op = input["op"].as_u64().unwrap_or(0) as u16;
    let got = compute_unknown_condition_cost(op);
    let want = if op < 256 { 0 } else { cost_closed_form((op & 0xff) as u32) };
    (got != want, format!("compute_unknown_condition_cost({op}) = {got}; closed form = {want}"))
}

/// PRECOMPUTED_HASHES[i] == sha256(1 ‖ canon(i)) for all 24 entries, and tree_hash on the small-atom node agrees
pub fn tree_hash_precomputed() -> EvalResult {
    use clvm_utils::{tree_hash, tree_hash_atom, PRECOMPUTED_HASHES};
    let mut res = EvalResult { obligations: 0, discharged: 0, failures: vec![], samples: vec![], exhaustive: true };
    for i in 0..PRECOMPUTED_HASHES.len() {
        res.obligations += 1;
        let canon = crate::t_int_encoders::canon(i as u64);
        let mut s = chia_sha2::Sha256::new();
        s.update([1u8]);
        s.update(&canon);
        let want = s.finalize();
        let mut a = clvmr::Allocator::new();
        let n = a.new_atom(&canon).unwrap();
        let got_table = PRECOMPUTED_HASHES[i].to_bytes();
        let got_fn = tree_hash(&a, n).to_bytes();
        let got_atom = tree_hash_atom(&canon).to_bytes();
        if got_table == want && got_fn == want && got_atom == want {
            res.discharged += 1;
        } else {
            res.failures.push(json!({"id": format!("tree_hash_precomputed/i={i}"), "function": "PRECOMPUTED_HASHES",
                "message": format!("PRECOMPUTED_HASHES[{i}] = {}, tree_hash(small atom {i}) = {}, sha256(01 ‖ canon({i})) = {}",
                    hex::encode(got_table), hex::encode(got_fn), hex::encode(want)),
                "clause": "PRECOMPUTED_HASHES[i] == sha256(1 ‖ canon(i))",
                "cex": {"unit": "eval", "function": "tree_hash_precomputed", "input": {"i": i}}}));
        }
        if i < 3 {
            res.samples.push(json!({"obligation": format!("PRECOMPUTED_HASHES[{i}] == sha256(01 ‖ canon({i})) == {}", hex::encode(want)), "backend": "native-eval"}));
        }
    }
    res
}

pub fn replay_precomputed(input: &Value) -> (bool, String) {
    let r = tree_hash_precomputed();
    let i = input["i"].as_u64().unwrap_or(0);
    let bad = r.failures.iter().any(|f| f["cex"]["input"]["i"].as_u64() == Some(i));
    (bad, format!("PRECOMPUTED_HASHES[{i}] {}", if bad { "differs from sha256(01 ‖ canon(i))" } else { "matches" }))
}

/// Ground obligations for C15 on fixed inputs (closed terms): the cache-assisted verdict equals the plain
/// aggregate verdict, in particular "never valid if any key is the point at infinity".
pub fn bls_cache_ground() -> EvalResult {
    use chia_bls::{aggregate, aggregate_verify, sign, BlsCache, PublicKey, SecretKey, Signature};
    let mut res = EvalResult { obligations: 0, discharged: 0, failures: vec![], samples: vec![], exhaustive: true };
    let sk1 = SecretKey::from_seed(&[1u8; 32]);
    let sk2 = SecretKey::from_seed(&[2u8; 32]);
    let pk1 = sk1.public_key();
    let pk2 = sk2.public_key();
    let inf = PublicKey::default();
    let s1 = sign(&sk1, b"hello");
    let s2 = sign(&sk2, b"world");
    let both = aggregate([&s1, &s2]);
    let cases: Vec<(&str, Vec<(PublicKey, Vec<u8>)>, Signature, bool)> = vec![
        ("valid-two-pairs", vec![(pk1, b"hello".to_vec()), (pk2, b"world".to_vec())], both.clone(), true),
        ("tampered-message", vec![(pk1, b"hellO".to_vec()), (pk2, b"world".to_vec())], both.clone(), false),
        ("missing-pair", vec![(pk1, b"hello".to_vec())], both.clone(), false),
        ("empty-list-default-sig", vec![], Signature::default(), true),
        ("infinity-key-extra-pair", vec![(pk1, b"hello".to_vec()), (inf, b"x".to_vec())], s1.clone(), false),
        ("infinity-key-only", vec![(inf, b"x".to_vec())], Signature::default(), false),
        // the infinity key anywhere in the list, the signature being the valid aggregate of the other pairs
        ("infinity-key-first", vec![(inf, b"x".to_vec()), (pk1, b"hello".to_vec())], s1.clone(), false),
        ("infinity-key-middle", vec![(pk1, b"hello".to_vec()), (inf, b"x".to_vec()), (pk2, b"world".to_vec())], both.clone(), false),
        ("infinity-key-first-of-three", vec![(inf, b"x".to_vec()), (pk1, b"hello".to_vec()), (pk2, b"world".to_vec())], both.clone(), false),
        ("infinity-key-twice-then-valid", vec![(inf, b"x".to_vec()), (inf, b"y".to_vec()), (pk1, b"hello".to_vec())], s1.clone(), false),
        ("infinity-key-honest-signature", vec![(inf, b"hello".to_vec())], s1.clone(), false),
        ("valid-single", vec![(pk1, b"hello".to_vec())], s1.clone(), true),
        ("tampered-single", vec![(pk1, b"hellO".to_vec())], s1.clone(), false),
        ("other-key-single", vec![(pk2, b"hello".to_vec())], s1.clone(), false),
    ];
    // a public key on the curve but outside the prime-order subgroup (reachable through from_bytes_unchecked / trusted
    // parsing / point addition): the honest key of sk1 shifted by a pure cofactor point.  No secret key signs for it, so
    // no signature is valid for it - the one tried is sk1's signature over the shifted key's augmented message
    let mut cases = cases;
    {
        const R_MINUS_1: [u8; 32] = [0x73, 0xed, 0xa7, 0x53, 0x29, 0x9d, 0x7d, 0x48, 0x33, 0x39, 0xd8, 0x08, 0x09, 0xa1, 0xd8, 0x05,
            0x53, 0xbd, 0xa4, 0x02, 0xff, 0xfe, 0x5b, 0xfe, 0xff, 0xff, 0xff, 0xff, 0x00, 0x00, 0x00, 0x00];
        let mut torsion: Option<PublicKey> = None;
        for i in 0..=255u8 {
            let mut b = [0u8; 48];
            b[0] = 0x80; b[47] = i;
            let Ok(p) = PublicKey::from_bytes_unchecked(&b) else { continue; };
            if p.is_valid() { continue; }
            let mut t = p;
            t.scalar_multiply(&R_MINUS_1);
            t += &p;
            if !t.is_inf() && !t.is_valid() { torsion = Some(t); break; }
        }
        if let Some(t) = torsion {
            let mut bad = pk1;
            bad += &t;
            let mut aug = bad.to_bytes().to_vec();
            aug.extend_from_slice(b"hello");
            let sig_bad = chia_bls::sign_raw(&sk1, &aug);
            cases.push(("off-subgroup-key", vec![(bad, b"hello".to_vec())], sig_bad.clone(), false));
            cases.push(("off-subgroup-key-with-honest-pair", vec![(pk2, b"world".to_vec()), (bad, b"hello".to_vec())], aggregate([&s2, &sig_bad]), false));
        }
    }
    for (name, pairs, sig, want) in cases {
        // verification from precomputed pairings e(H(pk ‖ msg), pk) agrees whenever no key is the point at infinity
        if !pairs.iter().any(|(p, _)| p.is_inf()) {
            res.obligations += 1;
            let gts: Vec<chia_bls::GTElement> = pairs.iter().map(|(p, m)| { let mut aug = p.to_bytes().to_vec(); aug.extend_from_slice(m); chia_bls::hash_to_g2(&aug).pair(p) }).collect();
            let gt = chia_bls::aggregate_verify_gt(&sig, &gts);
            let plain = aggregate_verify(&sig, pairs.iter().map(|(p, m)| (p, m.as_slice())));
            if gt == want && plain == want { res.discharged += 1; } else {
                res.failures.push(json!({"id": format!("bls_cache_ground/{name}/gt"), "function": "aggregate_verify_gt",
                    "message": format!("case {name}: aggregate_verify = {plain}, aggregate_verify_gt over the precomputed pairings = {gt}, required verdict = {want}"),
                    "clause": "verification from precomputed pairings agrees whenever no key is the point at infinity",
                    "cex": {"unit": "eval", "function": "bls_cache_ground", "input": {"case": name, "warm": "gt"}}}));
            }
        }
        // the pairing-product check used as a verifier the way its documentation prescribes (the pairs (pk, H(pk ‖ msg)) and
        // (-G1, signature)): the same verdict, in particular false for a key outside of the subgroup
        if !pairs.iter().any(|(p, _)| p.is_inf()) {
            res.obligations += 1;
            let mut list: Vec<(PublicKey, Signature)> = pairs.iter().map(|(p, m)| { let mut aug = p.to_bytes().to_vec(); aug.extend_from_slice(m); (*p, chia_bls::hash_to_g2(&aug)) }).collect();
            list.push((-PublicKey::generator(), sig.clone()));
            let fwd = chia_bls::aggregate_pairing(list.iter().map(|(p, s)| (p, s)));
            list.reverse();
            let rev = chia_bls::aggregate_pairing(list.iter().map(|(p, s)| (p, s)));
            if fwd == want && rev == want { res.discharged += 1; } else {
                res.failures.push(json!({"id": format!("bls_cache_ground/{name}/pairing"), "function": "aggregate_pairing",
                    "message": format!("case {name}: aggregate_pairing over the pairs (pk, H(pk ‖ msg)) and (-G1, signature) = {fwd} (reversed list: {rev}), required verdict = {want}"),
                    "clause": "the pairing-product verifier returns the verdict of aggregate verification",
                    "cex": {"unit": "eval", "function": "bls_cache_ground", "input": {"case": name, "warm": "pairing"}}}));
            }
        }
        if pairs.len() == 1 {
            // single verification agrees
            res.obligations += 1;
            let single = chia_bls::verify(&sig, &pairs[0].0, pairs[0].1.as_slice());
            if single == want { res.discharged += 1; } else {
                res.failures.push(json!({"id": format!("bls_cache_ground/{name}/single"), "function": "verify",
                    "message": format!("case {name}: verify = {single}, required verdict = {want}"),
                    "clause": "single verification agrees with aggregate and cache-assisted verification",
                    "cex": {"unit": "eval", "function": "bls_cache_ground", "input": {"case": name, "warm": "single"}}}));
            }
        }
        for warm in [false, true] {
            res.obligations += 1;
            let plain = aggregate_verify(&sig, pairs.iter().map(|(p, m)| (p, m.as_slice())));
            let cache = BlsCache::default();
            if warm {
                let _ = cache.aggregate_verify(pairs.iter().map(|(p, m)| (p, m.as_slice())), &sig);
            }
            let cached = cache.aggregate_verify(pairs.iter().map(|(p, m)| (p, m.as_slice())), &sig);
            let ok = plain == want && cached == want;
            if ok {
                res.discharged += 1;
            } else {
                res.failures.push(json!({"id": format!("bls_cache_ground/{name}/{}", if warm { "warm" } else { "cold" }),
                    "function": "BlsCache::aggregate_verify",
                    "message": format!("case {name} ({} cache): aggregate_verify = {plain}, BlsCache::aggregate_verify = {cached}, required verdict = {want}", if warm { "warm" } else { "cold" }),
                    "clause": "cache-assisted verdict == plain verdict; never valid if any key is the point at infinity",
                    "cex": {"unit": "eval", "function": "bls_cache_ground", "input": {"case": name, "warm": warm}}}));
            }
            if res.samples.len() < 4 {
                res.samples.push(json!({"obligation": format!("{name}: plain == cached == {want}"), "backend": "native-eval"}));
            }
        }
    }
    res
}

pub fn replay_bls(input: &Value) -> (bool, String) {
    let r = bls_cache_ground();
    let case = input["case"].as_str().unwrap_or("");
    let warm = input["warm"].clone();
    for f in &r.failures {
        if f["cex"]["input"]["case"].as_str() == Some(case) && f["cex"]["input"]["warm"] == warm {
            return (true, f["message"].as_str().unwrap_or("").to_string());
        }
    }
    (false, format!("case {case} agrees"))
}

/// Ground obligations for C18 on fixed histories: an operation that returns Ok must leave a blob that passes
/// its own integrity check and reloads; duplicate keys/hashes must be refused.
pub fn datalayer_ground() -> EvalResult {
    use chia_datalayer::{Hash, InsertLocation, KeyId, MerkleBlob, ValueId};
    use chia_protocol::Bytes32;
    let mut res = EvalResult { obligations: 0, discharged: 0, failures: vec![], samples: vec![], exhaustive: true };
    let h = |i: u8| Hash(Bytes32::new([i; 32]));
    let mut case = |name: &str, f: &dyn Fn() -> Result<(MerkleBlob, bool), String>| {
        res.obligations += 1;
        // f returns the blob after the history and whether the last operation reported Ok
        let verdict = match f() {
            Err(e) => Err(e),
            Ok((blob, last_ok)) => {
                let integrity = blob.check_integrity();
                let reload = MerkleBlob::new(blob.read_blob().clone());
                if last_ok && (integrity.is_err() || reload.is_err()) {
                    Err(format!("last operation returned Ok but check_integrity = {:?}, reload ok = {}", integrity.err().map(|e| e.to_string()), reload.is_ok()))
                } else { Ok(()) }
            }
        };
        match verdict {
            Ok(()) => { res.discharged += 1; }
            Err(msg) => res.failures.push(json!({"id": format!("datalayer_ground/{name}"), "function": name,
                "message": format!("{name}: {msg}"), "clause": "Ok ==> check_integrity passes and the blob reloads",
                "cex": {"unit": "eval", "function": "datalayer_ground", "input": {"case": name}}})),
        }
        if res.samples.len() < 4 { res.samples.push(json!({"obligation": format!("history {name}: Ok ==> integrity"), "backend": "native-eval"})); }
    };
    case("batch_insert_duplicate_key", &|| {
        let mut b = MerkleBlob::new(vec![]).map_err(|e| e.to_string())?;
        let items = vec![((KeyId(1), ValueId(1)), h(1)), ((KeyId(2), ValueId(2)), h(2)), ((KeyId(3), ValueId(3)), h(3)),
                         ((KeyId(3), ValueId(4)), h(4)), ((KeyId(5), ValueId(5)), h(5))];
        let r = b.batch_insert(items);
        Ok((b, r.is_ok()))
    });
    case("batch_insert_duplicate_hash", &|| {
        let mut b = MerkleBlob::new(vec![]).map_err(|e| e.to_string())?;
        let items = vec![((KeyId(1), ValueId(1)), h(1)), ((KeyId(2), ValueId(2)), h(2)), ((KeyId(3), ValueId(3)), h(3)),
                         ((KeyId(4), ValueId(4)), h(3)), ((KeyId(5), ValueId(5)), h(5))];
        let r = b.batch_insert(items);
        Ok((b, r.is_ok()))
    });
    case("batch_insert_distinct", &|| {
        let mut b = MerkleBlob::new(vec![]).map_err(|e| e.to_string())?;
        let items = (1..=7u8).map(|i| ((KeyId(i as i64), ValueId(i as i64)), h(i))).collect();
        let r = b.batch_insert(items);
        Ok((b, r.is_ok()))
    });
    case("upsert_to_existing_hash", &|| {
        let mut b = MerkleBlob::new(vec![]).map_err(|e| e.to_string())?;
        for i in 1..=3u8 { b.insert(KeyId(i as i64), ValueId(i as i64), &h(i), InsertLocation::Auto {}).map_err(|e| e.to_string())?; }
        let r = b.upsert(KeyId(1), ValueId(9), &h(2));
        Ok((b, r.is_ok()))
    });
    case("insert_duplicate_key_refused", &|| {
        let mut b = MerkleBlob::new(vec![]).map_err(|e| e.to_string())?;
        b.insert(KeyId(1), ValueId(1), &h(1), InsertLocation::Auto {}).map_err(|e| e.to_string())?;
        let r = b.insert(KeyId(1), ValueId(2), &h(2), InsertLocation::Auto {});
        if r.is_ok() { return Err("duplicate key accepted by insert".into()); }
        Ok((b, false))
    });
    res
}

pub fn replay_datalayer(input: &Value) -> (bool, String) {
    let r = datalayer_ground();
    let case = input["case"].as_str().unwrap_or("");
    for f in &r.failures {
        if f["cex"]["input"]["case"].as_str() == Some(case) {
            return (true, f["message"].as_str().unwrap_or("").to_string());
        }
    }
    (false, format!("history {case}: holds"))
}

/// Ground obligation for C14: every operation on a successfully decoded value completes without panicking.
/// Fixed input: a version-2 ProofOfSpace whose proof bytes do not validate.
pub fn pos_v2_hash() -> EvalResult {
    use chia_protocol::ProofOfSpace;
    use chia_traits::Streamable;
    let mut res = EvalResult { obligations: 0, discharged: 0, failures: vec![], samples: vec![], exhaustive: true };
    // challenge (32) ‖ pool_public_key = None (00) ‖ prefix 0b11 ‖ pool_contract_puzzle_hash (32) ‖ plot_public_key (48, generator)
    // ‖ plot_index u16 ‖ meta_group u8 ‖ strength u8 ‖ proof: u32 length 4 ‖ 4 junk bytes
    let g1 = chia_bls::PublicKey::generator().to_bytes();
    let mut bytes = vec![0u8; 32];
    bytes.push(0);
    bytes.push(0b11);
    bytes.extend_from_slice(&[7u8; 32]);
    bytes.extend_from_slice(&g1);
    bytes.extend_from_slice(&[0, 1, 2, 3]);
    bytes.extend_from_slice(&[0, 0, 0, 4, 0xde, 0xad, 0xbe, 0xef]);
    res.obligations += 1;
    let verdict: Result<(), String> = match ProofOfSpace::from_bytes(&bytes) {
        Err(_) => Ok(()), // rejected at decode: fine
        Ok(v) => {
            let re = v.to_bytes().map_err(|e| format!("re-encode failed: {e}"));
            match re {
                Err(e) => Err(e),
                Ok(b) if b != bytes => Err("re-encoding differs from the decoded bytes".into()),
                Ok(_) => {
                    let prev = std::panic::take_hook();
                    std::panic::set_hook(Box::new(|_| {}));
                    let r = std::panic::catch_unwind(std::panic::AssertUnwindSafe(|| v.hash()));
                    std::panic::set_hook(prev);
                    match r { Ok(_) => Ok(()), Err(_) => Err("from_bytes returned Ok and to_bytes reproduces the input, but hash() panics".into()) }
                }
            }
        }
    };
    match verdict {
        Ok(()) => res.discharged += 1,
        Err(m) => res.failures.push(json!({"id": "pos_v2_hash/junk-proof-126-bytes", "function": "ProofOfSpace::update_digest",
            "message": format!("ProofOfSpace v2 with a non-validating 4-byte proof ({} bytes, hex {}): {m}", bytes.len(), hex::encode(&bytes)),
            "clause": "every operation on a successfully decoded value completes without panicking",
            "cex": {"unit": "eval", "function": "pos_v2_hash", "input": {"bytes": hex::encode(&bytes)}}})),
    }
    res.samples.push(json!({"obligation": "decode(v2 PoS with junk proof) is Err, or hash() of the decoded value returns", "backend": "native-eval"}));
    res
}

pub fn replay_pos(_input: &Value) -> (bool, String) {
    let r = pos_v2_hash();
    match r.failures.first() {
        Some(f) => (true, f["message"].as_str().unwrap_or("").to_string()),
        None => (false, "decode rejects the value or hash() returns".into()),
    }
}

/// Ground obligations for C09 on fixed generators: the trusted-block helper reports the same additions (coin and
/// hint) and removals as full validation.  Generators are quoted spend lists `(q . ((parent puzzle amount solution)))`
/// whose puzzle is `(q . conditions)`, one per memo/hint shape.
fn trusted_check_prog(name: &str, prog: Vec<u8>, res: &mut EvalResult) { trusted_check_prog_refs(name, prog, &[], res) }

/// the same with previous generators referenced by the block (handed to every helper in the same order)
fn trusted_check_prog_refs(name: &str, prog: Vec<u8>, blocks: &[&[u8]], res: &mut EvalResult) {
    use chia_bls::Signature;
    use chia_consensus::additions_and_removals::additions_and_removals;
    use chia_consensus::consensus_constants::TEST_CONSTANTS;
    use chia_consensus::flags::ConsensusFlags;
    use chia_consensus::owned_conditions::OwnedSpendBundleConditions;
    use chia_consensus::run_block_generator::run_block_generator2;
    res.obligations += 1;
        let flags = ConsensusFlags::DONT_VALIDATE_SIGNATURE;
        let blocks: Vec<&[u8]> = blocks.to_vec();
        let full = run_block_generator2(&prog, blocks.clone(), 11_000_000_000, flags, &Signature::default(), None, &TEST_CONSTANTS);
        let fast = additions_and_removals(&prog, blocks.clone(), flags, &TEST_CONSTANTS);
        let verdict: Result<(), String> = match (full, fast) {
            (Ok((a2, conds)), Ok((adds, rems))) => {
                let owned = OwnedSpendBundleConditions::from(&a2, conds);
                let mut want_adds = vec![];
                let mut want_rems = vec![];
                for s in &owned.spends {
                    want_rems.push(hex::encode(s.coin_id));
                    for (ph, am, hint) in &s.create_coin {
                        want_adds.push((hex::encode(ph), *am, hint.as_ref().map(|h| hex::encode(h.as_ref()))));
                    }
                }
                let got_adds: Vec<_> = adds.iter().map(|(c, h)| (hex::encode(c.puzzle_hash), c.amount, h.as_ref().map(|h| hex::encode(h.as_ref())))).collect();
                let got_rems: Vec<_> = rems.iter().map(|(id, _)| hex::encode(id)).collect();
                // (the validated conditions keep a spend's created coins in a hash set: additions are compared as a multiset)
                let mut got_adds = got_adds; got_adds.sort(); want_adds.sort();
                if got_adds != want_adds { Err(format!("additions differ: additions_and_removals = {got_adds:?}, validated conditions = {want_adds:?}")) }
                else if got_rems != want_rems { Err(format!("removals differ: {got_rems:?} vs {want_rems:?}")) }
                else {
                    // the recovered coin spends: spend exactly the validated coins, and a bundle made of them validates to the
                    // same created coins; SpendBundle::additions lists the same coins
                    use chia_consensus::run_block_generator::get_coinspends_for_trusted_block;
                    use chia_consensus::spendbundle_conditions::run_spendbundle;
                    use chia_protocol::{Program, SpendBundle};
                    match get_coinspends_for_trusted_block(&TEST_CONSTANTS, &Program::new(prog.clone().into()), blocks.clone(), flags) {
                        Err(e) => Err(format!("full validation accepts but get_coinspends_for_trusted_block fails: {e:?}")),
                        Ok(css) => {
                            let ids: Vec<String> = css.iter().map(|c| hex::encode(c.coin.coin_id())).collect();
                            // the variant that also lists each spend's conditions: the same coin spends, and every CREATE_COIN of
                            // the validated conditions among the listed conditions (they are never dropped by the per-spend limit)
                            let with_conds = chia_consensus::run_block_generator::get_coinspends_with_conditions_for_trusted_block(&TEST_CONSTANTS, &Program::new(prog.clone().into()), blocks.clone(), flags);
                            let wc_problem: Option<String> = match &with_conds {
                                Err(e) => Some(format!("get_coinspends_with_conditions_for_trusted_block fails: {e:?}")),
                                Ok(list) => {
                                    if list.iter().map(|(c, _)| c).collect::<Vec<_>>() != css.iter().collect::<Vec<_>>() { Some("get_coinspends_with_conditions_for_trusted_block recovers other coin spends than get_coinspends_for_trusted_block".to_string()) }
                                    else {
                                        let mut got: Vec<(String, Vec<u8>)> = vec![];
                                        for (_, conds) in list { for (op, args) in conds { if *op == 51 && args.len() >= 2 { got.push((hex::encode(&args[0]), args[1].clone())); } } }
                                        let canon = |v: u64| -> Vec<u8> { if v == 0 { return vec![]; } let b = v.to_be_bytes(); let mut i = 0; while b[i] == 0 { i += 1; } let mut o = vec![]; if b[i] & 0x80 != 0 { o.push(0); } o.extend_from_slice(&b[i..]); o };
                                        let mut want: Vec<(String, Vec<u8>)> = want_adds.iter().map(|x| (x.0.clone(), canon(x.1))).collect();
                                        got.sort(); want.sort();
                                        if got != want { Some(format!("the CREATE_COIN conditions it lists ({}) are not the validated additions ({})", got.len(), want.len())) } else { None }
                                    }
                                }
                            };
                            if let Some(m) = wc_problem { Err(m) } else
                            if ids != want_rems { Err(format!("recovered coin spends {ids:?} are not the validated removals {want_rems:?}")) } else {
                                let bundle = SpendBundle::new(css, Signature::default());
                                let mut a3 = chia_consensus::allocator::make_allocator(ConsensusFlags::LIMIT_HEAP);
                                match run_spendbundle(&mut a3, &bundle, 11_000_000_000, flags, &TEST_CONSTANTS) {
                                    Err(e) => Err(format!("a bundle of the recovered coin spends is rejected: {e:?}")),
                                    Ok((c3, _)) => {
                                        let o3 = OwnedSpendBundleConditions::from(&a3, c3);
                                        let mut adds3 = vec![];
                                        for s in &o3.spends { for (ph, am, hint) in &s.create_coin { adds3.push((hex::encode(ph), *am, hint.as_ref().map(|h| hex::encode(h.as_ref())))); } }
                                        let mut w = want_adds.clone(); w.sort(); adds3.sort();
                                        if adds3 != w { Err(format!("a bundle of the recovered coin spends creates {adds3:?}, the block {w:?}")) } else {
                                            match bundle.additions() {
                                                Err(e) => Err(format!("SpendBundle::additions fails on the recovered bundle: {e:?}")),
                                                Ok(coins) => {
                                                    let mut got: Vec<(String, u64)> = coins.iter().map(|c| (hex::encode(c.puzzle_hash), c.amount)).collect();
                                                    let mut want: Vec<(String, u64)> = w.iter().map(|x| (x.0.clone(), x.1)).collect();
                                                    got.sort(); want.sort();
                                                    if got != want { Err(format!("SpendBundle::additions = {got:?}, validated conditions = {want:?}")) } else { Ok(()) }
                                                }
                                            }
                                        }
                                    }
                                }
                            }
                        }
                    }
                }
            }
            // (the shapes with references are built to be valid: a rejection means the shape, not the code, is wrong)
            (Err(e), _) if !blocks.is_empty() => Err(format!("full validation rejects the block: {e:?}")),
            (Err(_), _) => Ok(()), // not a block full validation accepts: outside the statement
            (Ok(_), Err(e)) => Err(format!("full validation accepts but additions_and_removals fails: {e:?}")),
        };
        match verdict {
            Ok(()) => res.discharged += 1,
            Err(m) => res.failures.push(json!({"id": format!("trusted_paths_ground/{name}"), "function": "additions_and_removals",
                "message": format!("generator with CREATE_COIN memo shape {name} (hex {}): {m}", hex::encode(&prog)),
                "clause": "additions_and_removals == additions/hints of the validated conditions",
                "cex": {"unit": "eval", "function": "trusted_paths_ground", "input": {"case": name}}})),
        }
}

pub fn trusted_paths_ground() -> EvalResult {
    use chia_bls::Signature;
    use chia_consensus::additions_and_removals::additions_and_removals;
    use chia_consensus::consensus_constants::TEST_CONSTANTS;
    use chia_consensus::flags::ConsensusFlags;
    use chia_consensus::owned_conditions::OwnedSpendBundleConditions;
    use chia_consensus::run_block_generator::run_block_generator2;
    use clvmr::serde::node_to_bytes;
    use clvmr::{Allocator, NodePtr};
    let mut res = EvalResult { obligations: 0, discharged: 0, failures: vec![], samples: vec![], exhaustive: true };

    fn list(a: &mut Allocator, items: &[NodePtr]) -> NodePtr {
        let mut r = a.nil();
        for i in items.iter().rev() { r = a.new_pair(*i, r).unwrap(); }
        r
    }
    // memo shapes: (name, builder of the argument tail after the amount)
    let shapes: Vec<(&str, Box<dyn Fn(&mut Allocator) -> NodePtr>)> = vec![
        ("no-memo", Box::new(|a| a.nil())),
        ("hint-32-bytes", Box::new(|a| { let h = a.new_atom(&[9u8; 32]).unwrap(); let m = list(a, &[h]); list(a, &[m]) })),
        ("hint-short", Box::new(|a| { let h = a.new_atom(&[1, 2, 3]).unwrap(); let m = list(a, &[h]); list(a, &[m]) })),
        ("hint-33-bytes", Box::new(|a| { let h = a.new_atom(&[9u8; 33]).unwrap(); let m = list(a, &[h]); list(a, &[m]) })),
        ("empty-first-memo", Box::new(|a| { let h = a.nil(); let m = list(a, &[h]); list(a, &[m]) })),
        ("empty-memo-list", Box::new(|a| { let m = a.nil(); list(a, &[m]) })),
        ("memo-is-pair", Box::new(|a| { let x = a.new_atom(&[5]).unwrap(); let p = a.new_pair(x, x).unwrap(); let m = list(a, &[p]); list(a, &[m]) })),
        ("memo-list-is-atom", Box::new(|a| { let m = a.new_atom(&[7u8; 32]).unwrap(); list(a, &[m]) })),
        // something after the memo list (accepted without STRICT_ARGS_COUNT): the hint is still the first memo
        ("hint-then-extra-argument", Box::new(|a| { let h = a.new_atom(&[9u8; 32]).unwrap(); let m = list(a, &[h]); let x = a.new_atom(&[1]).unwrap(); list(a, &[m, x]) })),
        ("hint-then-improper-terminator", Box::new(|a| { let h = a.new_atom(&[9u8; 32]).unwrap(); let m = list(a, &[h]); let x = a.new_atom(&[1]).unwrap(); a.new_pair(m, x).unwrap() })),
        ("short-hint-then-two-extras", Box::new(|a| { let h = a.new_atom(&[4]).unwrap(); let m = list(a, &[h]); let x = a.new_atom(&[1]).unwrap(); let y = a.new_atom(&[2u8; 40]).unwrap(); list(a, &[m, x, y]) })),
        ("hint-1-byte", Box::new(|a| { let h = a.new_atom(&[0]).unwrap(); let m = list(a, &[h]); list(a, &[m]) })),
        ("hint-31-bytes", Box::new(|a| { let h = a.new_atom(&[8u8; 31]).unwrap(); let m = list(a, &[h]); list(a, &[m]) })),
        ("hint-and-more-memos", Box::new(|a| { let h = a.new_atom(&[9u8; 32]).unwrap(); let x = a.new_atom(&[6u8; 50]).unwrap(); let p = a.new_pair(x, x).unwrap(); let m = list(a, &[h, x, p]); list(a, &[m]) })),
        ("memo-list-improper", Box::new(|a| { let h = a.new_atom(&[9u8; 32]).unwrap(); let x = a.new_atom(&[1]).unwrap(); let m = a.new_pair(h, x).unwrap(); list(a, &[m]) })),
        ("tail-is-atom", Box::new(|a| a.new_atom(&[1]).unwrap())),
        ("long-first-memo-then-short", Box::new(|a| { let h = a.new_atom(&[9u8; 33]).unwrap(); let x = a.new_atom(&[3]).unwrap(); let m = list(a, &[h, x]); list(a, &[m]) })),
    ];
    for (name, build_tail) in shapes {
        let mut a = Allocator::new();
        let op = a.new_atom(&[51]).unwrap();
        let ph = a.new_atom(&[7u8; 32]).unwrap();
        let amt = a.new_atom(&[1]).unwrap();
        let tail = build_tail(&mut a);
        let t2 = a.new_pair(amt, tail).unwrap();
        let t1 = a.new_pair(ph, t2).unwrap();
        let cond = a.new_pair(op, t1).unwrap();
        let conds = list(&mut a, &[cond]);
        let q = a.new_atom(&[1]).unwrap();
        let puzzle = a.new_pair(q, conds).unwrap();
        let parent = a.new_atom(&[3u8; 32]).unwrap();
        let coin_amount = a.new_atom(&[100]).unwrap();
        let solution = a.nil();
        let spend = list(&mut a, &[parent, puzzle, coin_amount, solution]);
        let spends = list(&mut a, &[spend]);
        let outer = list(&mut a, &[spends]);
        let generator = a.new_pair(q, outer).unwrap();
        let prog = node_to_bytes(&a, generator).unwrap();
        trusted_check_prog(name, prog, &mut res);
        if res.samples.len() < 4 { res.samples.push(json!({"obligation": format!("memo shape {name}: fast path == full validation"), "backend": "native-eval"})); }
    }
    // block shapes: spends with extension data after the solution, several spends sharing a puzzle, thousands of free conditions
    {
        let cc = |a: &mut Allocator, ph: u8, amount: u8| -> NodePtr {
            let op = a.new_atom(&[51]).unwrap(); let p = a.new_atom(&[ph; 32]).unwrap(); let am = a.new_atom(&[amount]).unwrap();
            list(a, &[op, p, am])
        };
        let spend_of = |a: &mut Allocator, parent: u8, conds: &[NodePtr], extra: u8| -> NodePtr {
            let q = a.new_atom(&[1]).unwrap();
            let cl = list(a, conds);
            let puzzle = a.new_pair(q, cl).unwrap();
            let par = a.new_atom(&[parent; 32]).unwrap();
            let amount = a.new_atom(&[100]).unwrap();
            let solution = a.nil();
            match extra {
                0 => list(a, &[par, puzzle, amount, solution]),
                1 => { let x = a.new_atom(&[0x55]).unwrap(); let y = a.new_atom(&[9u8; 40]).unwrap(); list(a, &[par, puzzle, amount, solution, x, y]) }
                2 => { let x = a.new_atom(&[5]).unwrap(); let t = a.new_pair(solution, x).unwrap(); let t = a.new_pair(amount, t).unwrap(); let t = a.new_pair(puzzle, t).unwrap(); a.new_pair(par, t).unwrap() }
                _ => { let x = a.new_atom(&[5]).unwrap(); let p = a.new_pair(x, x).unwrap(); list(a, &[par, puzzle, amount, solution, p]) }
            }
        };
        let finish = |a: &mut Allocator, spends: &[NodePtr]| -> Vec<u8> {
            let q = a.new_atom(&[1]).unwrap();
            let sl = list(a, spends);
            let outer = list(a, &[sl]);
            let g = a.new_pair(q, outer).unwrap();
            node_to_bytes(a, g).unwrap()
        };
        let mut blocks: Vec<(&str, Vec<u8>)> = vec![];
        for (nm, extra) in [("spend-with-extension-data", 1u8), ("spend-with-improper-tail", 2), ("spend-with-pair-extension", 3)] {
            let mut a = Allocator::new();
            let c1 = cc(&mut a, 7, 1);
            let s = spend_of(&mut a, 3, &[c1], extra);
            blocks.push((nm, finish(&mut a, &[s])));
        }
        {
            let mut a = Allocator::new();
            let c1 = cc(&mut a, 7, 1); let c2 = cc(&mut a, 8, 2); let c3 = cc(&mut a, 9, 3);
            let s1 = spend_of(&mut a, 3, &[c1], 0); let s2 = spend_of(&mut a, 4, &[c2], 1); let s3 = spend_of(&mut a, 5, &[c3], 0);
            blocks.push(("three-spends-middle-with-extension", finish(&mut a, &[s1, s2, s3])));
        }
        {
            let mut a = Allocator::new();
            let c1 = cc(&mut a, 7, 1);
            let s1 = spend_of(&mut a, 3, &[c1], 0); let s2 = spend_of(&mut a, 4, &[c1], 0); let s3 = spend_of(&mut a, 5, &[c1], 0);
            blocks.push(("three-spends-one-puzzle", finish(&mut a, &[s1, s2, s3])));
        }
        {
            // 9000 REMARK conditions (opcode 1, free) around three CREATE_COINs
            let mut a = Allocator::new();
            let remark = { let op = a.new_atom(&[1]).unwrap(); list(&mut a, &[op]) };
            let mut conds = vec![cc(&mut a, 7, 1)];
            for _ in 0..4500 { conds.push(remark); }
            conds.push(cc(&mut a, 8, 2));
            for _ in 0..4500 { conds.push(remark); }
            conds.push(cc(&mut a, 9, 3));
            let s = spend_of(&mut a, 3, &conds, 0);
            blocks.push(("nine-thousand-free-conditions", finish(&mut a, &[s])));
        }
        {
            // 9000 one-argument assertions that hold (ASSERT_MY_AMOUNT) and an announcement pair
            let mut a = Allocator::new();
            let my_amount = { let op = a.new_atom(&[73]).unwrap(); let v = a.new_atom(&[100]).unwrap(); list(&mut a, &[op, v]) };
            let mut conds = vec![];
            for _ in 0..9000 { conds.push(my_amount); }
            conds.push(cc(&mut a, 7, 1));
            let s = spend_of(&mut a, 3, &conds, 0);
            blocks.push(("nine-thousand-assertions", finish(&mut a, &[s])));
        }
        {
            // a coin of amount 0 that creates coins of amount 0, next to an ordinary spend
            let mut a = Allocator::new();
            let zero_cc = |a: &mut Allocator, ph: u8| -> NodePtr { let op = a.new_atom(&[51]).unwrap(); let p = a.new_atom(&[ph; 32]).unwrap(); let am = a.nil(); list(a, &[op, p, am]) };
            let c1 = zero_cc(&mut a, 7); let c2 = zero_cc(&mut a, 8); let c3 = cc(&mut a, 9, 3);
            let q = a.new_atom(&[1]).unwrap();
            let cl = list(&mut a, &[c1, c2]);
            let puzzle = a.new_pair(q, cl).unwrap();
            let par = a.new_atom(&[6u8; 32]).unwrap();
            let amount = a.nil();
            let solution = a.nil();
            let s0 = list(&mut a, &[par, puzzle, amount, solution]);
            let s1 = spend_of(&mut a, 3, &[c3], 0);
            blocks.push(("zero-amount-coin-creates-coins", finish(&mut a, &[s0, s1])));
        }
        for (nm, prog) in blocks { trusted_check_prog(nm, prog, &mut res); }
        // generators that are programs (not quoted lists) and take their data from the previous generators the block references:
        // environment (deserializer (ref1 ref2 ...)), so path 9 is the first reference, 21 the second, 45 the third.  The
        // spent coin's parent id and the created coins' puzzle hashes come from different references: every helper must hand
        // the references over in the order full validation does
        {
            fn cons(a: &mut Allocator, first: NodePtr, rest: NodePtr) -> NodePtr {
                let op = a.new_atom(&[4]).unwrap();
                let nil = a.nil();
                let t = a.new_pair(rest, nil).unwrap();
                let t = a.new_pair(first, t).unwrap();
                a.new_pair(op, t).unwrap()
            }
            fn quote(a: &mut Allocator, v: &[u8]) -> NodePtr { let q = a.new_atom(&[1]).unwrap(); let v = a.new_atom(v).unwrap(); a.new_pair(q, v).unwrap() }
            let make = |parent_path: u8, ph_paths: &[u8]| -> Vec<u8> {
                let mut a = Allocator::new();
                let nil = a.nil();
                let mut conds = nil;
                for (i, php) in ph_paths.iter().enumerate().rev() {
                    let ph = a.new_atom(&[*php]).unwrap();
                    let amount = quote(&mut a, &[1 + i as u8]);
                    let e = cons(&mut a, amount, nil);
                    let e = cons(&mut a, ph, e);
                    let op = quote(&mut a, &[51]);
                    let cond = cons(&mut a, op, e);
                    conds = cons(&mut a, cond, conds);
                }
                let e = cons(&mut a, conds, nil);
                let amount = quote(&mut a, &[0x03, 0xe8]);
                let e = cons(&mut a, amount, e);
                let puzzle = quote(&mut a, &[1]);
                let e = cons(&mut a, puzzle, e);
                let parent = a.new_atom(&[parent_path]).unwrap();
                let spend = cons(&mut a, parent, e);
                let spends = cons(&mut a, spend, nil);
                let output = cons(&mut a, spends, nil);
                node_to_bytes(&a, output).unwrap()
            };
            let r1 = [0xaau8; 32]; let r2 = [0xbbu8; 32]; let r3 = [0xccu8; 32];
            trusted_check_prog_refs("one-reference", make(9, &[9]), &[&r1], &mut res);
            trusted_check_prog_refs("two-references", make(9, &[21]), &[&r1, &r2], &mut res);
            trusted_check_prog_refs("two-references-swapped-roles", make(21, &[9]), &[&r1, &r2], &mut res);
            trusted_check_prog_refs("three-references", make(9, &[45, 21]), &[&r1, &r2, &r3], &mut res);
        }
    }
    res
}

pub fn replay_trusted(input: &Value) -> (bool, String) {
    let r = trusted_paths_ground();
    let case = input["case"].as_str().unwrap_or("");
    for f in &r.failures {
        if f["cex"]["input"]["case"].as_str() == Some(case) { return (true, f["message"].as_str().unwrap_or("").to_string()); }
    }
    (false, format!("memo shape {case}: fast path agrees with full validation"))
}

// ---------------------------------------------------------------------------------------------------------------
// BOUNDED stand-in for C18 (MerkleBlob::insert / delete / batch_insert are outside Verus's subset: slice patterns,
// chunk iterators, byte-blob aliasing).  Exhaustive exploration of every operation history up to a stated depth
// over a fixed alphabet, on the real crate, against a plain map.  Never counted as proved.
#[derive(Clone, Copy, Debug)]
enum HOp {
    Insert { k: i64, h: u8 },                    // InsertLocation::Auto
    InsertAt { k: i64, h: u8, at: i64, left: bool }, // InsertLocation::Leaf at the index of key `at`
    InsertRoot { k: i64, h: u8 },                // InsertLocation::AsRoot
    Delete { k: i64 },
    Upsert { k: i64, v: i64, h: u8 },
    Batch { ks: &'static [(i64, u8)] },
}

const HIST_OPS: &[HOp] = &[
    HOp::Insert { k: 1, h: 1 }, HOp::Insert { k: 2, h: 2 }, HOp::Insert { k: 3, h: 3 },
    HOp::Insert { k: 2, h: 1 },                                  // fresh key, hash of key 1
    HOp::InsertAt { k: 3, h: 3, at: 1, left: true }, HOp::InsertAt { k: 2, h: 2, at: 1, left: false },
    HOp::InsertRoot { k: 4, h: 4 },
    HOp::Delete { k: 1 }, HOp::Delete { k: 2 }, HOp::Delete { k: 3 },
    HOp::Upsert { k: 1, v: 11, h: 11 }, HOp::Upsert { k: 2, v: 12, h: 12 },
    HOp::Upsert { k: 1, v: 21, h: 2 },                           // hash of key 2
    HOp::Upsert { k: 3, v: 3, h: 3 },
    HOp::Batch { ks: &[] }, HOp::Batch { ks: &[(1, 1)] }, HOp::Batch { ks: &[(2, 2), (3, 3)] },
    HOp::Batch { ks: &[(4, 4), (5, 5), (6, 6), (7, 7), (8, 8)] },
    HOp::Batch { ks: &[(4, 4), (4, 9)] }, HOp::Batch { ks: &[(5, 5), (6, 5)] },
    HOp::Batch { ks: &[(3, 3), (4, 4), (5, 5)] },
    HOp::Batch { ks: &[(4, 4), (4, 9), (5, 5)] }, HOp::Batch { ks: &[(5, 5), (6, 5), (7, 7), (8, 8)] },
];

type HModel = std::collections::BTreeMap<i64, (i64, u8)>;

fn hist_hash(i: u8) -> chia_datalayer::Hash { chia_datalayer::Hash(chia_protocol::Bytes32::new([i; 32])) }

fn hist_apply(b: &mut chia_datalayer::MerkleBlob, op: HOp) -> Result<bool, String> {
    use chia_datalayer::{InsertLocation, KeyId, Side, ValueId};
    let r = std::panic::catch_unwind(std::panic::AssertUnwindSafe(|| match op {
        HOp::Insert { k, h } => b.insert(KeyId(k), ValueId(k), &hist_hash(h), InsertLocation::Auto {}).map(|_| ()),
        HOp::InsertAt { k, h, at, left } => match b.get_key_index(KeyId(at)) {
            Ok(index) => b.insert(KeyId(k), ValueId(k), &hist_hash(h),
                InsertLocation::Leaf { index, side: if left { Side::Left } else { Side::Right } }).map(|_| ()),
            Err(e) => Err(e),
        },
        HOp::InsertRoot { k, h } => b.insert(KeyId(k), ValueId(k), &hist_hash(h), InsertLocation::AsRoot {}).map(|_| ()),
        HOp::Delete { k } => b.delete(KeyId(k)),
        HOp::Upsert { k, v, h } => b.upsert(KeyId(k), ValueId(v), &hist_hash(h)),
        HOp::Batch { ks } => b.batch_insert(ks.iter().map(|(k, h)| ((KeyId(*k), ValueId(*k)), hist_hash(*h))).collect()),
    }));
    match r { Ok(r) => Ok(r.is_ok()), Err(_) => Err("operation panicked".into()) }
}

/// whether a plain map with the blob's two uniqueness rules (one leaf per key, one leaf per hash) accepts the operation;
/// None = no expectation (explicit insert locations have further, positional, refusal reasons)
fn hist_must_succeed(m: &HModel, op: HOp) -> Option<bool> {
    let hash_used = |h: u8, except: Option<i64>| m.iter().any(|(k, (_, hh))| *hh == h && Some(*k) != except);
    match op {
        HOp::Insert { k, h } => Some(!m.contains_key(&k) && !hash_used(h, None)),
        HOp::Delete { k } => Some(m.contains_key(&k)),
        HOp::Upsert { k, h, .. } => Some(if m.contains_key(&k) { !hash_used(h, Some(k)) } else { !hash_used(h, None) }),
        HOp::Batch { ks } => {
            let mut seen_k = std::collections::BTreeSet::new(); let mut seen_h = std::collections::BTreeSet::new();
            let mut ok = true;
            for (k, h) in ks { if !seen_k.insert(*k) || !seen_h.insert(*h) || m.contains_key(k) || hash_used(*h, None) { ok = false; } }
            Some(ok)
        }
        _ => None,
    }
}

fn hist_model_apply(m: &mut HModel, op: HOp) {
    match op {
        HOp::Insert { k, h } | HOp::InsertAt { k, h, .. } | HOp::InsertRoot { k, h } => { m.insert(k, (k, h)); }
        HOp::Delete { k } => { m.remove(&k); }
        HOp::Upsert { k, v, h } => { m.insert(k, (v, h)); }
        HOp::Batch { ks } => { for (k, h) in ks { m.insert(*k, (*k, *h)); } }
    }
}

/// independent recomputation of the root hash over the tree reachable from index 0
fn hist_root(b: &chia_datalayer::MerkleBlob, idx: chia_datalayer::TreeIndex, depth: u32) -> Result<chia_datalayer::Hash, String> {
    use chia_datalayer::{internal_hash, Node};
    if depth > 64 { return Err("tree deeper than 64".into()); }
    match b.get_node(idx).map_err(|e| e.to_string())? {
        Node::Leaf(l) => Ok(l.hash),
        Node::Internal(n) => Ok(internal_hash(&hist_root(b, n.left, depth + 1)?, &hist_root(b, n.right, depth + 1)?)),
    }
}

/// everything the statement lets an observer see: content, integrity, reload, root, proofs
/// whether the last level of an exploration also gets the operations on the reloaded blob (off for depth 6 only)
static HIST_PROBE_LEAVES: std::sync::atomic::AtomicBool = std::sync::atomic::AtomicBool::new(true);

fn hist_observe(b: &chia_datalayer::MerkleBlob, m: &HModel, probe: bool) -> Result<Option<chia_datalayer::Hash>, String> {
    use chia_datalayer::{KeyId, MerkleBlob, TreeIndex, ValueId};
    let r = std::panic::catch_unwind(std::panic::AssertUnwindSafe(|| -> Result<Option<chia_datalayer::Hash>, String> {
        let kv = b.get_keys_values().map_err(|e| format!("get_keys_values: {e}"))?;
        let want: std::collections::HashMap<KeyId, ValueId> = m.iter().map(|(k, (v, _))| (KeyId(*k), ValueId(*v))).collect();
        if kv != want { return Err(format!("content {:?} differs from the plain map {:?}", kv, want)); }
        b.check_integrity().map_err(|e| format!("check_integrity: {e}"))?;
        let mut c = b.clone();
        c.check_integrity_on_drop = false;
        c.calculate_lazy_hashes().map_err(|e| format!("calculate_lazy_hashes: {e}"))?;
        let root = c.get_hash_at_index(TreeIndex(0)).map_err(|e| format!("get_hash_at_index(0): {e}"))?;
        if m.is_empty() != root.is_none() { return Err("root presence disagrees with emptiness".into()); }
        if let Some(root) = root {
            let indep = hist_root(&c, TreeIndex(0), 0)?;
            if indep != root { return Err("root hash differs from an independent recomputation over the tree".into()); }
            for (k, (_, h)) in m {
                let p = c.get_proof_of_inclusion(KeyId(*k)).map_err(|e| format!("get_proof_of_inclusion({k}): {e}"))?;
                if !p.valid() { return Err(format!("inclusion proof of key {k} is not valid")); }
                if p.root_hash() != root { return Err(format!("inclusion proof of key {k} does not end in the root")); }
                if p.node_hash != hist_hash(*h) { return Err(format!("inclusion proof of key {k} starts from another leaf hash")); }
            }
        }
        let mut re = MerkleBlob::new(b.read_blob().clone()).map_err(|e| format!("reload: {e}"))?;
        re.check_integrity_on_drop = false;
        let kv2 = re.get_keys_values().map_err(|e| format!("reload get_keys_values: {e}"))?;
        if kv2 != want { return Err("reloaded blob has different content".into()); }
        re.calculate_lazy_hashes().map_err(|e| format!("reload calculate_lazy_hashes: {e}"))?;
        if re.get_hash_at_index(TreeIndex(0)).map_err(|e| e.to_string())? != root { return Err("reloaded blob has a different root".into()); }
        // the reloaded blob is as good as the original: it passes the integrity check, and it takes one more operation (a fresh
        // key, then its removal) exactly like a plain map would - nothing that was live before the reload is disturbed
        match std::panic::catch_unwind(std::panic::AssertUnwindSafe(|| re.check_integrity())) {
            Ok(Ok(())) => {}
            Ok(Err(e)) => return Err(format!("reloaded blob fails check_integrity: {e}")),
            Err(_) => return Err("check_integrity panics on the reloaded blob".into()),
        }
        // (the further operations on the reloaded blob are tried after every history of at most five operations; at the sixth
        // level of the thorough exploration from the empty tree, where nine states in ten sit, the integrity check above is
        // all that is demanded)
        if !probe { return Ok(root); }
        re.insert(KeyId(99), ValueId(99), &hist_hash(99), chia_datalayer::InsertLocation::Auto {}).map_err(|e| format!("insert of a fresh key into the reloaded blob: {e}"))?;
        let mut want2 = want.clone();
        want2.insert(KeyId(99), ValueId(99));
        if re.get_keys_values().map_err(|e| format!("reloaded blob after an insert: get_keys_values: {e}"))? != want2 { return Err("an insert into the reloaded blob disturbed other keys".into()); }
        match std::panic::catch_unwind(std::panic::AssertUnwindSafe(|| re.check_integrity())) {
            Ok(Ok(())) => {}
            Ok(Err(e)) => return Err(format!("reloaded blob fails check_integrity after an insert: {e}")),
            Err(_) => return Err("check_integrity panics on the reloaded blob after an insert".into()),
        }
        re.calculate_lazy_hashes().map_err(|e| format!("reloaded blob after an insert: calculate_lazy_hashes: {e}"))?;
        if let Some(r2) = re.get_hash_at_index(TreeIndex(0)).map_err(|e| e.to_string())? {
            if hist_root(&re, TreeIndex(0), 0)? != r2 { return Err("reloaded blob after an insert: root hash differs from an independent recomputation".into()); }
            for (k, (_, h)) in m {
                let p = re.get_proof_of_inclusion(KeyId(*k)).map_err(|e| format!("reloaded blob after an insert: get_proof_of_inclusion({k}): {e}"))?;
                if !p.valid() || p.root_hash() != r2 || p.node_hash != hist_hash(*h) { return Err(format!("reloaded blob after an insert: inclusion proof of key {k} is wrong")); }
            }
        } else { return Err("reloaded blob after an insert has no root".into()); }
        re.delete(KeyId(99)).map_err(|e| format!("delete of the fresh key from the reloaded blob: {e}"))?;
        if re.get_keys_values().map_err(|e| format!("reloaded blob after insert and delete: get_keys_values: {e}"))? != want { return Err("insert and delete on the reloaded blob changed its content".into()); }
        re.calculate_lazy_hashes().map_err(|e| format!("reloaded blob after insert and delete: calculate_lazy_hashes: {e}"))?;
        Ok(root)
    }));
    match r { Ok(r) => r, Err(_) => Err("observation panicked".into()) }
}

fn hist_dfs(b: &chia_datalayer::MerkleBlob, m: &HModel, root: Option<chia_datalayer::Hash>, path: &mut Vec<usize>, depth: usize,
            count: &mut u64, fails: &mut Vec<(Vec<usize>, String)>) {
    if depth == 0 || fails.len() >= 3 { return; }
    for (i, op) in HIST_OPS.iter().enumerate() {
        let mut nb = b.clone();
        nb.check_integrity_on_drop = false;
        let mut nm = m.clone();
        path.push(i);
        *count += 1;
        let verdict = match hist_apply(&mut nb, *op) {
            Err(e) => Err(e),
            Ok(ok) if hist_must_succeed(m, *op).is_some_and(|w| w != ok) => Err(format!("the operation {} although a plain map with unique keys and hashes {}", if ok { "succeeded" } else { "failed" }, if ok { "refuses it" } else { "accepts it" })),
            Ok(ok) => {
                if ok { hist_model_apply(&mut nm, *op); }
                match hist_observe(&nb, &nm, depth > 1 || HIST_PROBE_LEAVES.load(std::sync::atomic::Ordering::Relaxed)) {
                    Err(e) => Err(format!("after {} operation: {e}", if ok { "a successful" } else { "a failed" })),
                    Ok(r) => if !ok && r != root { Err("a failed operation changed the root hash".to_string()) } else { Ok(r) },
                }
            }
        };
        match verdict {
            Ok(r) => hist_dfs(&nb, &nm, r, path, depth - 1, count, fails),
            Err(e) => { if fails.len() < 3 { fails.push((path.clone(), e)); } }
        }
        path.pop();
        if fails.len() >= 3 { break; }
    }
}

fn hist_describe(path: &[usize]) -> String {
    path.iter().map(|i| format!("{:?}", HIST_OPS[*i])).collect::<Vec<_>>().join(" ; ")
}

pub fn datalayer_histories(depth: usize) -> EvalResult {
    use chia_datalayer::MerkleBlob;
    HIST_PROBE_LEAVES.store(depth <= 5, std::sync::atomic::Ordering::Relaxed);
    let mut res = EvalResult { obligations: 0, discharged: 0, failures: vec![], samples: vec![], exhaustive: false };
    let prev = std::panic::take_hook();
    std::panic::set_hook(Box::new(|_| {}));
    // one worker per first operation
    let handles: Vec<_> = (0..HIST_OPS.len()).map(|first| std::thread::spawn(move || {
        let mut count = 0u64; let mut fails = vec![];
        let mut b = MerkleBlob::new(vec![]).expect("empty blob");
        b.check_integrity_on_drop = false;
        let m = HModel::new();
        // run only the subtree below `first`
        let mut nb = b.clone(); nb.check_integrity_on_drop = false;
        let mut nm = m.clone();
        let mut path = vec![first];
        count += 1;
        match hist_apply(&mut nb, HIST_OPS[first]) {
            Err(e) => fails.push((path.clone(), e)),
            Ok(ok) if hist_must_succeed(&m, HIST_OPS[first]).is_some_and(|w| w != ok) => fails.push((path.clone(), "the first operation's verdict differs from a plain map with unique keys and hashes".into())),
            Ok(ok) => {
                if ok { hist_model_apply(&mut nm, HIST_OPS[first]); }
                match hist_observe(&nb, &nm, true) {
                    Err(e) => fails.push((path.clone(), format!("after {} operation: {e}", if ok { "a successful" } else { "a failed" }))),
                    Ok(r) => if !ok && r.is_some() { fails.push((path.clone(), "a failed operation changed the root hash".into())) }
                             else { hist_dfs(&nb, &nm, r, &mut path, depth - 1, &mut count, &mut fails) },
                }
            }
        }
        (count, fails)
    })).collect();
    for h in handles {
        let (count, fails) = h.join().unwrap_or((0, vec![(vec![], "worker panicked".to_string())]));
        res.obligations += count;
        res.discharged += count - fails.len() as u64;
        for (path, msg) in fails {
            if res.failures.len() >= 5 { break; }
            let name = path.iter().map(|i| i.to_string()).collect::<Vec<_>>().join("-");
            res.failures.push(json!({"id": format!("datalayer_histories/{name}"), "function": "MerkleBlob",
                "message": format!("history [{}]: {msg}", hist_describe(&path)),
                "clause": "content == plain map, integrity passes, failed op leaves it unchanged, reload equivalent, root and proofs agree",
                "cex": {"unit": "eval", "function": "datalayer_histories", "input": {"history": path}}}));
        }
    }
    std::panic::set_hook(prev);
    res.samples.push(json!({"obligation": format!("all {} histories of length <= {depth} over {} operations (keys 1..8): observable state == plain map after every step", res.obligations, HIST_OPS.len()), "backend": "native-bounded"}));
    res
}


/// the same exhaustive exploration, started from populated trees (five, seven and eight leaves, three leaves inserted one by
/// one): every history of at most `depth` further operations.  BOUNDED like datalayer_histories.
pub fn datalayer_histories_prefixed(depth: usize) -> EvalResult {
    use chia_datalayer::MerkleBlob;
    let mut res = EvalResult { obligations: 0, discharged: 0, failures: vec![], samples: vec![], exhaustive: false };
    let prev = std::panic::take_hook();
    std::panic::set_hook(Box::new(|_| {}));
    const PREFIXES: &[&[usize]] = &[&[17], &[17, 16], &[17, 16, 15], &[0, 1, 2], &[2, 1, 0, 6]];
    let handles: Vec<_> = PREFIXES.iter().flat_map(|p| (0..HIST_OPS.len()).map(move |first| (*p, first))).map(|(prefix, first)| std::thread::spawn(move || {
        let mut count = 0u64; let mut fails: Vec<(Vec<usize>, String)> = vec![];
        let mut b = MerkleBlob::new(vec![]).expect("empty blob");
        b.check_integrity_on_drop = false;
        let mut m = HModel::new();
        let mut path: Vec<usize> = vec![];
        let mut root = None;
        // the prefix itself is part of the history: every step of it is checked like any other
        for i in prefix.iter().chain(std::iter::once(&first)) {
            path.push(*i);
            count += 1;
            match hist_apply(&mut b, HIST_OPS[*i]) {
                Err(e) => { fails.push((path.clone(), e)); return (count, fails); }
                Ok(ok) if hist_must_succeed(&m, HIST_OPS[*i]).is_some_and(|w| w != ok) => { fails.push((path.clone(), "the operation's verdict differs from a plain map with unique keys and hashes".into())); return (count, fails); }
                Ok(ok) => {
                    if ok { hist_model_apply(&mut m, HIST_OPS[*i]); }
                    match hist_observe(&b, &m, true) {
                        Err(e) => { fails.push((path.clone(), format!("after {} operation: {e}", if ok { "a successful" } else { "a failed" }))); return (count, fails); }
                        Ok(r) => { if !ok && r != root { fails.push((path.clone(), "a failed operation changed the root hash".into())); return (count, fails); } root = r; }
                    }
                }
            }
        }
        hist_dfs(&b, &m, root, &mut path, depth.saturating_sub(1), &mut count, &mut fails);
        (count, fails)
    })).collect();
    for h in handles {
        let (count, fails) = h.join().unwrap_or((0, vec![(vec![], "worker panicked".to_string())]));
        res.obligations += count;
        res.discharged += count - (fails.len() as u64).min(count);
        for (path, msg) in fails {
            if res.failures.len() >= 5 { break; }
            let name = path.iter().map(|i| i.to_string()).collect::<Vec<_>>().join("-");
            res.failures.push(json!({"id": format!("datalayer_histories/{name}"), "function": "MerkleBlob",
                "message": format!("history [{}]: {msg}", hist_describe(&path)),
                "clause": "content == plain map, integrity passes, failed op leaves it unchanged, reload equivalent, root and proofs agree",
                "cex": {"unit": "eval", "function": "datalayer_histories", "input": {"history": path}}}));
        }
    }
    std::panic::set_hook(prev);
    res.samples.push(json!({"obligation": format!("all {} steps of the histories of length <= {depth} over {} operations started from {} populated trees: observable state == plain map after every step", res.obligations, HIST_OPS.len(), PREFIXES.len()), "backend": "native-bounded"}));
    res
}

pub fn replay_histories(input: &Value) -> (bool, String) {
    use chia_datalayer::MerkleBlob;
    let path: Vec<usize> = input["history"].as_array().map(|a| a.iter().filter_map(|v| v.as_u64().map(|x| x as usize)).collect()).unwrap_or_default();
    let prev = std::panic::take_hook();
    std::panic::set_hook(Box::new(|_| {}));
    let mut b = MerkleBlob::new(vec![]).expect("empty blob");
    b.check_integrity_on_drop = false;
    let mut m = HModel::new();
    let mut root = None;
    let mut out = (false, format!("history [{}]: holds", hist_describe(&path)));
    for (n, i) in path.iter().enumerate() {
        if *i >= HIST_OPS.len() { out = (false, "bad op index".into()); break; }
        match hist_apply(&mut b, HIST_OPS[*i]) {
            Err(e) => { out = (true, format!("step {n} {:?}: {e}", HIST_OPS[*i])); break; }
            Ok(ok) if hist_must_succeed(&m, HIST_OPS[*i]).is_some_and(|w| w != ok) => { out = (true, format!("step {n} {:?} returned {}: a plain map with unique keys and hashes decides otherwise", HIST_OPS[*i], if ok { "Ok" } else { "Err" })); break; }
            Ok(ok) => {
                if ok { hist_model_apply(&mut m, HIST_OPS[*i]); }
                match hist_observe(&b, &m, true) {
                    Err(e) => { out = (true, format!("step {n} {:?} returned {}: {e}", HIST_OPS[*i], if ok { "Ok" } else { "Err" })); break; }
                    Ok(r) => { if !ok && r != root { out = (true, format!("step {n} {:?} failed but changed the root", HIST_OPS[*i])); break; } root = r; }
                }
            }
        }
    }
    std::panic::set_hook(prev);
    out
}

// ---------------------------------------------------------------------------------------------------------------
// Ground obligations for C05 (and the verdict-agreement clause of C15): for every AGG_SIG opcode, coin amounts at every
// canonical-integer length boundary and pair multiplicities 1 and 2, the block path (no cache, cold cache, warm cache)
// and the mempool path must accept exactly the aggregate signature over the prescribed texts - message ‖ coin attributes
// selected by the opcode ‖ that opcode's domain constant - each occurrence signed once, and reject a signature with an
// occurrence missing or over a text that differs in one place.  The expected texts are computed here, independently.
fn sg_canon(v: u64) -> Vec<u8> {
    // minimal big-endian two's complement of a non-negative integer (CLVM canonical form)
    if v == 0 { return vec![]; }
    let b = v.to_be_bytes();
    let mut i = 0;
    while b[i] == 0 { i += 1; }
    let mut out = vec![];
    if b[i] & 0x80 != 0 { out.push(0); }
    out.extend_from_slice(&b[i..]);
    out
}

fn sg_text(op: u16, msg: &[u8], coin: &chia_protocol::Coin, k: &chia_consensus::consensus_constants::ConsensusConstants) -> Vec<u8> {
    let parent = coin.parent_coin_info.as_slice();
    let puzzle = coin.puzzle_hash.as_slice();
    let amount = sg_canon(coin.amount);
    let coin_id = {
        let mut h = chia_sha2::Sha256::new();
        h.update(parent); h.update(puzzle); h.update(&amount);
        h.finalize()
    };
    let mut t = msg.to_vec();
    match op {
        43 => { t.extend_from_slice(parent); t.extend_from_slice(k.agg_sig_parent_additional_data.as_slice()); }
        44 => { t.extend_from_slice(puzzle); t.extend_from_slice(k.agg_sig_puzzle_additional_data.as_slice()); }
        45 => { t.extend_from_slice(&amount); t.extend_from_slice(k.agg_sig_amount_additional_data.as_slice()); }
        46 => { t.extend_from_slice(puzzle); t.extend_from_slice(&amount); t.extend_from_slice(k.agg_sig_puzzle_amount_additional_data.as_slice()); }
        47 => { t.extend_from_slice(parent); t.extend_from_slice(&amount); t.extend_from_slice(k.agg_sig_parent_amount_additional_data.as_slice()); }
        48 => { t.extend_from_slice(parent); t.extend_from_slice(puzzle); t.extend_from_slice(k.agg_sig_parent_puzzle_additional_data.as_slice()); }
        50 => { t.extend_from_slice(&coin_id); t.extend_from_slice(k.agg_sig_me_additional_data.as_slice()); }
        _ => {}
    }
    t
}

fn sg_case(op: u16, amount: u64, count: usize, spends_n: usize, fork: u8) -> Vec<(String, bool, bool, bool, bool, bool)> {
    use chia_bls::{sign, BlsCache, SecretKey, Signature};
    use chia_consensus::consensus_constants::TEST_CONSTANTS;
    use chia_consensus::flags::MEMPOOL_MODE as MM;
    use chia_consensus::run_block_generator::run_block_generator2;
    use chia_consensus::solution_generator::solution_generator;
    // fork: 0 = the mempool flag set as is; 1 = with the hard-fork flag COST_CONDITIONS (signature collection must not depend on it)
    #[allow(non_snake_case)]
    let MEMPOOL_MODE = if fork == 1 { MM | chia_consensus::flags::ConsensusFlags::COST_CONDITIONS } else { MM };
    use chia_consensus::spendbundle_validation::validate_clvm_and_signature;
    use chia_protocol::{Coin, CoinSpend, Program, SpendBundle};
    let sk = SecretKey::from_seed(&[7; 32]);
    let pk = sk.public_key();
    let msg: &[u8] = b"hello";
    let puzzle = [1u8];
    let ph = clvm_utils::tree_hash_atom(&puzzle).to_bytes();
    let one = [[0xff, 0xff, op as u8, 0xff, 0xb0].as_slice(), pk.to_bytes().as_slice(), [0xff, 0x85].as_slice(), msg, [0x80].as_slice()].concat();
    let mut spends = vec![];
    let mut texts: Vec<Vec<u8>> = vec![];
    for s in 0..spends_n {
        let mut solution = vec![];
        for _ in 0..count { solution.extend_from_slice(&one); }
        solution.push(0x80);
        let coin = Coin::new([0x44 + s as u8; 32].into(), ph.into(), amount);
        for _ in 0..count { texts.push(sg_text(op, msg, &coin, &TEST_CONSTANTS)); }
        spends.push(CoinSpend::new(coin, Program::new(puzzle.as_slice().into()), solution.into()));
    }
    let mut full = Signature::default();
    for t in &texts { full += &sign(&sk, t); }
    let mut missing = Signature::default();
    for t in texts.iter().skip(1) { missing += &sign(&sk, t); }
    let mut tampered = Signature::default();
    for (i, t) in texts.iter().enumerate() {
        let mut t = t.clone();
        if i == 0 { let n = t.len(); t[n - 1] ^= 1; }
        tampered += &sign(&sk, &t);
    }
    let mut out = vec![];
    for (name, sig, want) in [("full", &full, true), ("one-occurrence-missing", &missing, false), ("one-text-differs", &tampered, false)] {
        let generator = solution_generator(spends.iter().map(|s| (s.coin, s.puzzle_reveal.as_ref(), s.solution.as_ref()))).expect("solution_generator");
        let no_refs: [&[u8]; 0] = [];
        let block = |cache: Option<&BlsCache>| run_block_generator2(&generator, no_refs, TEST_CONSTANTS.max_block_cost_clvm, MEMPOOL_MODE, sig, cache, &TEST_CONSTANTS).is_ok();
        let plain = block(None);
        let cache = BlsCache::default();
        let cold = block(Some(&cache));
        let warm = block(Some(&cache));
        let bundle = SpendBundle { coin_spends: spends.clone(), aggregated_signature: sig.clone() };
        let mempool = validate_clvm_and_signature(&bundle, TEST_CONSTANTS.max_block_cost_clvm, &TEST_CONSTANTS, MEMPOOL_MODE).is_ok();
        out.push((name.to_string(), want, plain, cold, warm, mempool));
    }
    // the helper that recomputes a spend's final signed messages from the reported (owned) conditions yields exactly the
    // prescribed texts, list by list
    {
        use chia_consensus::flags::ConsensusFlags;
        use chia_consensus::make_aggsig_final_message::make_aggsig_final_message;
        use chia_consensus::owned_conditions::OwnedSpendBundleConditions;
        let generator = solution_generator(spends.iter().map(|s| (s.coin, s.puzzle_reveal.as_ref(), s.solution.as_ref()))).expect("solution_generator");
        let no_refs: [&[u8]; 0] = [];
        let ok = match run_block_generator2(&generator, no_refs, TEST_CONSTANTS.max_block_cost_clvm, MEMPOOL_MODE | ConsensusFlags::DONT_VALIDATE_SIGNATURE, &Signature::default(), None, &TEST_CONSTANTS) {
            Err(_) => false,
            Ok((a, conds)) => {
                let owned = OwnedSpendBundleConditions::from(&a, conds);
                let mut got: Vec<Vec<u8>> = vec![];
                for sp in &owned.spends {
                    for (code, lst) in [(50u16, &sp.agg_sig_me), (43, &sp.agg_sig_parent), (44, &sp.agg_sig_puzzle), (45, &sp.agg_sig_amount),
                                        (46, &sp.agg_sig_puzzle_amount), (47, &sp.agg_sig_parent_amount), (48, &sp.agg_sig_parent_puzzle)] {
                        for (_, m) in lst.iter() { let mut t = m.as_ref().to_vec(); make_aggsig_final_message(code, &mut t, sp, &TEST_CONSTANTS); got.push(t); }
                    }
                }
                for (_, m) in &owned.agg_sig_unsafe { got.push(m.as_ref().to_vec()); }
                let mut want = texts.clone();
                got.sort(); want.sort();
                got == want
            }
        };
        out.push(("owned-recompute".to_string(), true, ok, ok, ok, ok));
    }
    out
}

/// an AGG_SIG_ME condition whose key lies outside the G1 subgroup (a valid key shifted by a cofactor point), with the
/// signature the valid key's owner can produce for it: a malformed key is refused on every path
fn sg_bad_key_case() -> Vec<(String, bool, bool, bool, bool, bool)> {
    use chia_bls::{sign_raw, BlsCache, PublicKey, SecretKey};
    use chia_consensus::consensus_constants::TEST_CONSTANTS;
    use chia_consensus::flags::MEMPOOL_MODE;
    use chia_consensus::run_block_generator::run_block_generator2;
    use chia_consensus::solution_generator::solution_generator;
    use chia_consensus::spendbundle_validation::validate_clvm_and_signature;
    use chia_protocol::{Coin, CoinSpend, Program, SpendBundle};
    const R_MINUS_1: [u8; 32] = [0x73, 0xed, 0xa7, 0x53, 0x29, 0x9d, 0x7d, 0x48, 0x33, 0x39, 0xd8, 0x08, 0x09, 0xa1, 0xd8, 0x05,
        0x53, 0xbd, 0xa4, 0x02, 0xff, 0xfe, 0x5b, 0xfe, 0xff, 0xff, 0xff, 0xff, 0x00, 0x00, 0x00, 0x00];
    let mut torsion: Option<PublicKey> = None;
    for i in 0..=255u8 {
        let mut b = [0u8; 48];
        b[0] = 0x80; b[47] = i;
        let Ok(p) = PublicKey::from_bytes_unchecked(&b) else { continue; };
        if p.is_valid() { continue; }
        let mut t = p;
        t.scalar_multiply(&R_MINUS_1);
        t += &p;
        if !t.is_inf() && !t.is_valid() { torsion = Some(t); break; }
    }
    let Some(t) = torsion else { return vec![]; };
    let sk = SecretKey::from_seed(&[7; 32]);
    let mut bad = sk.public_key();
    bad += &t;
    let msg: &[u8] = b"hello";
    let puzzle = [1u8];
    let ph = clvm_utils::tree_hash_atom(&puzzle).to_bytes();
    let coin = Coin::new([0x44; 32].into(), ph.into(), 1000);
    let solution = [[0xff, 0xff, 50u8, 0xff, 0xb0].as_slice(), bad.to_bytes().as_slice(), [0xff, 0x85].as_slice(), msg, [0x80, 0x80].as_slice()].concat();
    let spend = CoinSpend::new(coin, Program::new(puzzle.as_slice().into()), solution.into());
    let text = sg_text(50, msg, &coin, &TEST_CONSTANTS);
    let sig = sign_raw(&sk, [bad.to_bytes().as_slice(), text.as_slice()].concat());
    let generator = solution_generator([(spend.coin, spend.puzzle_reveal.as_ref(), spend.solution.as_ref())]).expect("solution_generator");
    let no_refs: [&[u8]; 0] = [];
    let block = |cache: Option<&BlsCache>| run_block_generator2(&generator, no_refs, TEST_CONSTANTS.max_block_cost_clvm, MEMPOOL_MODE, &sig, cache, &TEST_CONSTANTS).is_ok();
    let plain = block(None);
    let cache = BlsCache::default();
    let cold = block(Some(&cache));
    let warm = block(Some(&cache));
    let bundle = SpendBundle { coin_spends: vec![spend], aggregated_signature: sig.clone() };
    let mempool = validate_clvm_and_signature(&bundle, TEST_CONSTANTS.max_block_cost_clvm, &TEST_CONSTANTS, MEMPOOL_MODE).is_ok();
    vec![("off-subgroup-key".to_string(), false, plain, cold, warm, mempool)]
}

const SG_AMOUNTS: &[u64] = &[0, 1, 0x7f, 0x80, 0xff, 0x100, 0x7fff, 0x8000, 0xffff, 0x1_0000, 0x7f_ffff, 0x80_0000, 0x7fff_ffff, 0x8000_0000,
    0x7f_ffff_ffff, 0x80_0000_0000, 0x7fff_ffff_ffff, 0x8000_0000_0000, 0x7f_ffff_ffff_ffff, 0x80_0000_0000_0000,
    0x7fff_ffff_ffff_ffff, 0x8000_0000_0000_0000, u64::MAX];

fn sg_shapes() -> Vec<(u16, u64, usize, usize, u8)> {
    let mut v = vec![];
    for op in 43u16..=50 {
        let amount_sensitive = matches!(op, 45 | 46 | 47 | 50);
        for (i, amt) in SG_AMOUNTS.iter().enumerate() {
            if !amount_sensitive && i != 1 && i != 15 { continue; }
            v.push((op, *amt, 1, 1, 0));
        }
        v.push((op, 1_000_000_000, 2, 1, 0));   // the same condition twice in one spend
        v.push((op, 1_000_000_000, 1, 2, 0));   // the same (key, message) asked for by two coins
        v.push((op, 1, 1, 1, 1));               // under the hard-fork flag set
        v.push((op, 1_000_000_000, 2, 2, 1));
    }
    v
}

pub fn sig_paths_ground() -> EvalResult {
    let mut res = EvalResult { obligations: 0, discharged: 0, failures: vec![], samples: vec![], exhaustive: true };
    let shapes = sg_shapes();
    let handles: Vec<_> = shapes.chunks((shapes.len() + 15) / 16).map(|c| { let c = c.to_vec(); std::thread::spawn(move || {
        c.into_iter().map(|(op, amt, count, n, fork)| ((op, amt, count, n, fork), sg_case(op, amt, count, n, fork))).collect::<Vec<_>>()
    }) }).collect();
    for h in handles {
        for ((op, amt, count, n, fork), rows) in h.join().unwrap_or_default() {
            for (name, want, plain, cold, warm, mempool) in rows {
                res.obligations += 1;
                if plain == want && cold == want && warm == want && mempool == want { res.discharged += 1; }
                else if res.failures.len() < 6 {
                    res.failures.push(json!({"id": format!("sig_paths_ground/op{op}-amount{amt:#x}-x{count}-spends{n}{}-{name}", if fork == 1 { "-cost-conditions" } else { "" }), "function": "validate_signature / validate_clvm_and_signature",
                        "message": format!("AGG_SIG opcode {op}, coin amount {amt:#x}, {count} condition(s) in each of {n} spend(s), signature '{name}': required verdict {want}; block no-cache {plain}, cold cache {cold}, warm cache {warm}, mempool {mempool}"),
                        "clause": "all paths accept exactly the aggregate signature over message ‖ attributes(op) ‖ domain(op), once per occurrence",
                        "cex": {"unit": "eval", "function": "sig_paths_ground", "input": {"op": op, "amount": amt, "count": count, "spends": n, "sig": name, "fork": fork}}}));
                }
            }
        }
    }
    for (name, want, plain, cold, warm, mempool) in sg_bad_key_case() {
        res.obligations += 1;
        if plain == want && cold == want && warm == want && mempool == want { res.discharged += 1; } else if res.failures.len() < 6 {
            res.failures.push(json!({"id": format!("sig_paths_ground/{name}"), "function": "to_key / validate_signature / validate_clvm_and_signature",
                "message": format!("AGG_SIG_ME with a key outside the subgroup: required verdict {want}; block no-cache {plain}, cold cache {cold}, warm cache {warm}, mempool {mempool}"),
                "clause": "a malformed key is rejected on every path",
                "cex": {"unit": "eval", "function": "sig_paths_ground", "input": {"op": 0, "amount": 0, "count": 0, "spends": 0, "sig": name, "fork": 0}}}));
        }
    }
    res.samples.push(json!({"obligation": format!("{} ground verdicts: 8 AGG_SIG opcodes x amounts at every canonical-length boundary x multiplicities x 3 signatures, 4 paths each", res.obligations), "backend": "native-eval"}));
    res
}

pub fn replay_sig_paths(input: &Value) -> (bool, String) {
    let op = input["op"].as_u64().unwrap_or(50) as u16;
    let amt = input["amount"].as_u64().unwrap_or(1);
    let count = input["count"].as_u64().unwrap_or(1) as usize;
    let n = input["spends"].as_u64().unwrap_or(1) as usize;
    let sig = input["sig"].as_str().unwrap_or("full");
    let fork = input["fork"].as_u64().unwrap_or(0) as u8;
    let rows = if op == 0 { sg_bad_key_case() } else { sg_case(op, amt, count, n, fork) };
    for (name, want, plain, cold, warm, mempool) in rows {
        if name == sig {
            let bad = !(plain == want && cold == want && warm == want && mempool == want);
            return (bad, format!("opcode {op} amount {amt:#x} x{count} spends {n} sig {name}: required {want}; block {plain}, cold {cold}, warm {warm}, mempool {mempool}"));
        }
    }
    (false, "unknown signature variant".into())
}

pub fn run(task: &str) -> Option<EvalResult> {
    if let Some(d) = task.strip_prefix("datalayer_histories_prefixed:") {
        return Some(datalayer_histories_prefixed(d.parse().unwrap_or(3)));
    }
    if let Some(d) = task.strip_prefix("datalayer_histories:") {
        return Some(datalayer_histories(d.parse().unwrap_or(3)));
    }
    match task {
        "trusted_paths_ground" => Some(trusted_paths_ground()),
        "sig_paths_ground" => Some(sig_paths_ground()),
        "relations_ground" => Some(crate::relations::relations_ground(false)),
        "relations_ground:thorough" => Some(crate::relations::relations_ground(true)),
        "builders_ground" => Some(crate::builders::builders_ground(false)),
        "builders_ground:thorough" => Some(crate::builders::builders_ground(true)),
        "paths_ground" => Some(crate::paths::paths_ground()),
        "merkle_ground" => Some(crate::merkle::merkle_ground(false)),
        "merkle_ground:thorough" => Some(crate::merkle::merkle_ground(true)),
        "time_locks_ground" => Some(crate::t_time_locks::time_locks_ground(false)),
        "time_locks_ground:thorough" => Some(crate::t_time_locks::time_locks_ground(true)),
        "tree_hash_ground" => Some(crate::t_tree_hash::tree_hash_ground()),
        "curry_ground" => Some(crate::t_tree_hash::curry_ground()),
        "dedup_ground" => Some(crate::dedup::dedup_ground()),
        "alloc_ground" => Some(crate::alloc_watch::alloc_ground()),
        "ff_ground" => Some(crate::ff::ff_ground()),
        "ints_ground" => Some(crate::ints::ints_ground()),
        "roundtrip_ground" => Some(crate::roundtrip::roundtrip_ground(false)),
        "roundtrip_ground:thorough" => Some(crate::roundtrip::roundtrip_ground(true)),
        "pos_v2_hash" => Some(pos_v2_hash()),
        "datalayer_ground" => Some(datalayer_ground()),
        "bls_cache_ground" => Some(bls_cache_ground()),
        "cost_table" => Some(cost_table()),
        "tree_hash_precomputed" => Some(tree_hash_precomputed()),
        _ => None,
    }
}
