//! native-eval: ground obligations decided by evaluating the real code exhaustively over a finite index set.
use num_bigint::BigUint;
use serde_json::{json, Value};

pub struct EvalResult {
    pub obligations: u64,
    pub discharged: u64,
    pub failures: Vec<Value>,
    pub samples: Vec<Value>,
    pub exhaustive: bool,
}

/// closed form named in opcodes.rs / C04: 100 * 17^i / 16^i rounded down to three significant digits
fn cost_closed_form(i: u32) -> u64 {
    let v = BigUint::from(100u32) * BigUint::from(17u32).pow(i) / BigUint::from(16u32).pow(i);
    let mut p = BigUint::from(1000u32);
    while p < v {
        p *= 10u32;
    }
    p /= 1000u32;
    let r = (&v / &p) * &p;
    u64::try_from(r).expect("fits u64")
}

pub fn cost_table() -> EvalResult {
    use chia_consensus::opcodes::compute_unknown_condition_cost;
    let mut res = EvalResult { obligations: 0, discharged: 0, failures: vec![], samples: vec![], exhaustive: true };
    let closed: Vec<u64> = (0..256u32).map(cost_closed_form).collect();
    for op in 0..=u16::MAX {
        res.obligations += 1;
        let got = compute_unknown_condition_cost(op);
        let want = if op < 256 { 0 } else { closed[(op & 0xff) as usize] };
        if got == want {
            res.discharged += 1;
        } else if res.failures.len() < 5 {
            res.failures.push(json!({"id": format!("cost_table/op={op}"), "function": "compute_unknown_condition_cost",
                "message": format!("compute_unknown_condition_cost({op}) = {got}, closed form 100*17^i/16^i (3 significant digits, i = op & 0xff) = {want}"),
                "clause": "COSTS[i] == round3(100*17^i/16^i)",
                "cex": {"unit": "eval", "function": "cost_table", "input": {"op": op}}}));
        }
    }
    for op in [256u16, 257, 511, 0x1234, 0xffff] {
        res.samples.push(json!({"obligation": format!("compute_unknown_condition_cost({op}) == {}", closed[(op & 0xff) as usize]), "backend": "native-eval"}));
    }
    res
}

pub fn replay_cost(input: &Value) -> (bool, String) {
    use chia_consensus::opcodes::compute_unknown_condition_cost;
    let op = input["op"].as_u64().unwrap_or(0) as u16;
    let got = compute_unknown_condition_cost(op);
    let want = if op < 256 { 0 } else { cost_closed_form((op & 0xff) as u32) };
    (got != want, format!("compute_unknown_condition_cost({op}) = {got}; closed form = {want}"))
}

/// PRECOMPUTED_HASHES[i] == sha256(1 ‖ canon(i)) for all 24 entries, and tree_hash on the small-atom node agrees
pub fn tree_hash_precomputed() -> EvalResult {
    use clvm_utils::{tree_hash, tree_hash_atom, PRECOMPUTED_HASHES};
    let mut res = EvalResult { obligations: 0, discharged: 0, failures: vec![], samples: vec![], exhaustive: true };
    for i in 0..PRECOMPUTED_HASHES.len() {
        res.obligations += 1;
        let canon = crate::t_int_encoders::canon(i as u64);
        let mut s = chia_sha2::Sha256::new();
        s.update([1u8]);
        s.update(&canon);
        let want = s.finalize();
        let mut a = clvmr::Allocator::new();
        let n = a.new_atom(&canon).unwrap();
        let got_table = PRECOMPUTED_HASHES[i].to_bytes();
        let got_fn = tree_hash(&a, n).to_bytes();
        let got_atom = tree_hash_atom(&canon).to_bytes();
        if got_table == want && got_fn == want && got_atom == want {
            res.discharged += 1;
        } else {
            res.failures.push(json!({"id": format!("tree_hash_precomputed/i={i}"), "function": "PRECOMPUTED_HASHES",
                "message": format!("PRECOMPUTED_HASHES[{i}] = {}, tree_hash(small atom {i}) = {}, sha256(01 ‖ canon({i})) = {}",
                    hex::encode(got_table), hex::encode(got_fn), hex::encode(want)),
                "clause": "PRECOMPUTED_HASHES[i] == sha256(1 ‖ canon(i))",
                "cex": {"unit": "eval", "function": "tree_hash_precomputed", "input": {"i": i}}}));
        }
        if i < 3 {
            res.samples.push(json!({"obligation": format!("PRECOMPUTED_HASHES[{i}] == sha256(01 ‖ canon({i})) == {}", hex::encode(want)), "backend": "native-eval"}));
        }
    }
    res
}

pub fn replay_precomputed(input: &Value) -> (bool, String) {
    let r = tree_hash_precomputed();
    let i = input["i"].as_u64().unwrap_or(0);
    let bad = r.failures.iter().any(|f| f["cex"]["input"]["i"].as_u64() == Some(i));
    (bad, format!("PRECOMPUTED_HASHES[{i}] {}", if bad { "differs from sha256(01 ‖ canon(i))" } else { "matches" }))
}

pub fn run(task: &str) -> Option<EvalResult> {
    match task {
        "cost_table" => Some(cost_table()),
        "tree_hash_precomputed" => Some(tree_hash_precomputed()),
        _ => None,
    }
}
