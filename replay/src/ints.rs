//! C11 ground side: every integer width of the clvm-traits conversions and MatchByte, on boundary values, against the
//! interpreter's own canonical form (clvmr Allocator::new_number / number): the encoder emits exactly the canonical atom,
//! the decoder returns the value the atom denotes and refuses atoms outside the target range (negative for unsigned
//! widths, too wide), at every width boundary.
use crate::eval::EvalResult;
use clvm_traits::{FromClvm, MatchByte, ToClvm};
use clvmr::Allocator;
use num_bigint::BigInt;
use serde_json::{json, Value};

/// minimal two's complement big-endian form of an integer (the CLVM canonical integer)
fn canon(v: &BigInt) -> Vec<u8> {
    if *v == BigInt::from(0) { return vec![]; }
    v.to_signed_bytes_be()
}

fn boundary_values() -> Vec<BigInt> {
    let mut v: Vec<BigInt> = vec![];
    for bits in [0u32, 7, 8, 15, 16, 31, 32, 63, 64, 127, 128] {
        let p = BigInt::from(1) << bits;
        for d in -2i32..=2 { v.push(&p + d); v.push(-&p + d); }
    }
    v.push(BigInt::from(0));
    v.sort(); v.dedup();
    v
}

macro_rules! width {
    ($out:ident, $t:ty, $name:expr) => {{
        let lo = BigInt::from(<$t>::MIN); let hi = BigInt::from(<$t>::MAX);
        for v in boundary_values() {
            let bytes = canon(&v);
            let mut a = Allocator::new();
            let node = if bytes.is_empty() { a.nil() } else { a.new_atom(&bytes).unwrap() };
            let dec = <$t>::from_clvm(&a, node);
            let in_range = v >= lo && v <= hi;
            let ok = match (&dec, in_range) {
                (Ok(x), true) => BigInt::from(*x) == v,
                (Err(_), false) => true,
                _ => false,
            };
            $out.push((format!("{}/decode/{}", $name, v), ok, format!("{}::from_clvm(atom {}) = {:?}; the atom denotes {}, {} the range of {}", $name, hex::encode(&bytes), dec.as_ref().map(|x| x.to_string()).map_err(|e| format!("{e:?}")), v, if in_range { "inside" } else { "outside" }, $name)));
            if in_range {
                let x: $t = <$t>::try_from(v.clone()).expect("in range");
                let mut a2 = Allocator::new();
                let enc = x.to_clvm(&mut a2).map(|n| a2.atom(n).as_ref().to_vec());
                let ok2 = enc.as_ref().map(|e| *e == bytes).unwrap_or(false);
                $out.push((format!("{}/encode/{}", $name, v), ok2, format!("{}::to_clvm({}) = {:?}; the canonical form is {}", $name, v, enc.as_ref().map(hex::encode).map_err(|e| format!("{e:?}")), hex::encode(&bytes))));
                // what the interpreter itself produces for the number
                let mut a3 = Allocator::new();
                let n3 = a3.new_number(v.clone()).unwrap();
                let ok3 = a3.atom(n3).as_ref() == bytes.as_slice();
                $out.push((format!("{}/interpreter/{}", $name, v), ok3, format!("Allocator::new_number({}) is not the canonical form {}", v, hex::encode(&bytes))));
            }
            // redundant sign padding (a non-canonical but well-defined atom): the decoder still returns the denoted value
            if in_range && !bytes.is_empty() {
                let pad = if v < BigInt::from(0) { 0xffu8 } else { 0x00 };
                let mut padded = vec![pad]; padded.extend_from_slice(&bytes);
                let mut a4 = Allocator::new();
                let n4 = a4.new_atom(&padded).unwrap();
                let d4 = <$t>::from_clvm(&a4, n4);
                let ok4 = matches!(&d4, Ok(x) if BigInt::from(*x) == v);
                $out.push((format!("{}/decode-padded/{}", $name, v), ok4, format!("{}::from_clvm(atom {}) = {:?}; the atom denotes {}", $name, hex::encode(&padded), d4.as_ref().map(|x| x.to_string()).map_err(|e| format!("{e:?}")), v)));
            }
        }
    }};
}

macro_rules! match_byte {
    ($out:ident, $($n:literal),*) => {{ $(
        {
            let want = canon(&BigInt::from($n as u32));
            let mut a = Allocator::new();
            let enc = MatchByte::<$n>.to_clvm(&mut a).map(|n| a.atom(n).as_ref().to_vec());
            $out.push((format!("MatchByte<{}>/encode", $n), enc.as_ref().map(|e| *e == want).unwrap_or(false), format!("MatchByte::<{}>::to_clvm = {:?}; the canonical form of {} is {}", $n, enc.as_ref().map(hex::encode).map_err(|e| format!("{e:?}")), $n, hex::encode(&want))));
            // accepts exactly the canonical atom of its value: not the bare byte when that reads as a negative number, not a padded form
            for cand in [vec![], vec![$n as u8], vec![0u8, $n as u8], vec![0u8, 0, $n as u8], vec![0xffu8, $n as u8]] {
                let mut a2 = Allocator::new();
                let node = if cand.is_empty() { a2.nil() } else { a2.new_atom(&cand).unwrap() };
                let got = MatchByte::<$n>::from_clvm(&a2, node).is_ok();
                $out.push((format!("MatchByte<{}>/decode/{}", $n, hex::encode(&cand)), got == (cand == want), format!("MatchByte::<{}>::from_clvm(atom {}) accepted = {got}; the canonical form of {} is {}", $n, hex::encode(&cand), $n, hex::encode(&want))));
            }
        }
    )* }};
}

/// an encoder that records atoms and relies on every default method of the trait (in particular the default
/// `encode_bigint`, which the Allocator overrides with the interpreter's own `new_number`)
struct Rec;
impl clvm_traits::ClvmEncoder for Rec {
    type Node = Vec<u8>;
    fn encode_atom(&mut self, bytes: clvmr::Atom<'_>) -> Result<Vec<u8>, clvm_traits::ToClvmError> { Ok(bytes.as_ref().to_vec()) }
    fn encode_pair(&mut self, first: Vec<u8>, rest: Vec<u8>) -> Result<Vec<u8>, clvm_traits::ToClvmError> {
        let mut o = vec![0xff]; o.extend(first); o.extend(rest); Ok(o)
    }
}

fn bigint_cases(out: &mut Vec<(String, bool, String)>) {
    let mut vals = boundary_values();
    for bits in [129u32, 135, 136, 255, 256, 511] { let p = BigInt::from(1) << bits; for d in -1i32..=1 { vals.push(&p + d); vals.push(-&p + d); } }
    for v in vals {
        let want = canon(&v);
        let rec = v.to_clvm(&mut Rec);
        out.push((format!("BigInt/default-encoder/{v}"), rec.as_ref().map(|e| *e == want).unwrap_or(false),
            format!("BigInt {v} through an encoder using the trait's default encode_bigint = {:?}; the canonical form is {}", rec.as_ref().map(hex::encode).map_err(|e| format!("{e:?}")), hex::encode(&want))));
        let th = v.to_clvm(&mut clvm_utils::TreeHasher);
        let want_hash = clvm_utils::tree_hash_atom(&want);
        out.push((format!("BigInt/tree-hasher/{v}"), th.as_ref().map(|h| *h == want_hash).unwrap_or(false),
            format!("BigInt {v} through TreeHasher = {:?}; the tree hash of its canonical atom {} is {}", th.as_ref().map(|h| hex::encode(h.to_bytes())).map_err(|e| format!("{e:?}")), hex::encode(&want), hex::encode(want_hash.to_bytes()))));
        let mut a = Allocator::new();
        let al = v.to_clvm(&mut a).map(|n| a.atom(n).as_ref().to_vec());
        out.push((format!("BigInt/allocator/{v}"), al.as_ref().map(|e| *e == want).unwrap_or(false),
            format!("BigInt {v} through the Allocator = {:?}; the canonical form is {}", al.as_ref().map(hex::encode).map_err(|e| format!("{e:?}")), hex::encode(&want))));
        let mut a2 = Allocator::new();
        let node = if want.is_empty() { a2.nil() } else { a2.new_atom(&want).unwrap() };
        let dec = BigInt::from_clvm(&a2, node);
        out.push((format!("BigInt/decode/{v}"), matches!(&dec, Ok(x) if *x == v),
            format!("BigInt::from_clvm(atom {}) = {:?}; the atom denotes {v}", hex::encode(&want), dec.as_ref().map(|x| x.to_string()).map_err(|e| format!("{e:?}")))));
    }
    // the fixed widths through the recording encoder and the tree hasher (no Allocator in between)
    macro_rules! w { ($t:ty, $name:expr) => {{
        for v in boundary_values() {
            if let Ok(x) = <$t>::try_from(v.clone()) {
                let want = canon(&v);
                let rec = x.to_clvm(&mut Rec);
                out.push((format!("{}/recording-encoder/{}", $name, v), rec.as_ref().map(|e| *e == want).unwrap_or(false),
                    format!("{} {} through a recording encoder = {:?}; the canonical form is {}", $name, v, rec.as_ref().map(hex::encode).map_err(|e| format!("{e:?}")), hex::encode(&want))));
                let th = x.to_clvm(&mut clvm_utils::TreeHasher);
                let want_hash = clvm_utils::tree_hash_atom(&want);
                out.push((format!("{}/tree-hasher/{}", $name, v), th.as_ref().map(|h| *h == want_hash).unwrap_or(false),
                    format!("{} {} through TreeHasher is not the tree hash of its canonical atom {}", $name, v, hex::encode(&want))));
            }
        }
    }}; }
    w!(u8, "u8"); w!(i8, "i8"); w!(u16, "u16"); w!(i16, "i16"); w!(u32, "u32"); w!(i32, "i32"); w!(u64, "u64"); w!(i64, "i64");
    w!(u128, "u128"); w!(i128, "i128"); w!(usize, "usize"); w!(isize, "isize");
}

/// the stand-alone signature-message helper: for every AGG_SIG flavour and coin amounts at every length boundary of the
/// canonical form, the text appended to the message is the coin's attributes - the amount in canonical form - and the
/// flavour's domain constant, built here from their definitions
fn aggsig_suffix_cases(out: &mut Vec<(String, bool, String)>) {
    use chia_consensus::consensus_constants::TEST_CONSTANTS as K;
    use chia_consensus::make_aggsig_final_message::make_aggsig_final_message;
    use chia_consensus::owned_conditions::OwnedSpendConditions;
    let parent = [0x11u8; 32]; let ph = [0x22u8; 32];
    let mut amounts: Vec<u64> = vec![0, 1];
    for bits in [7u32, 8, 15, 16, 23, 24, 31, 32, 39, 40, 47, 48, 55, 56, 63] { let p = 1u64 << bits; amounts.extend([p - 1, p, p + 1]); }
    amounts.push(u64::MAX - 1); amounts.push(u64::MAX);
    for amount in amounts {
        let am = canon(&BigInt::from(amount));
        let coin_id: [u8; 32] = { let mut h = chia_sha2::Sha256::new(); h.update(parent); h.update(ph); h.update(&am); h.finalize() };
        let spend = OwnedSpendConditions { parent_id: parent.into(), puzzle_hash: ph.into(), coin_amount: amount, coin_id: coin_id.into(), ..Default::default() };
        for op in 43u16..=50 {
            let mut want = b"msg".to_vec();
            match op {
                43 => { want.extend(parent); want.extend(K.agg_sig_parent_additional_data.as_slice()); }
                44 => { want.extend(ph); want.extend(K.agg_sig_puzzle_additional_data.as_slice()); }
                45 => { want.extend(&am); want.extend(K.agg_sig_amount_additional_data.as_slice()); }
                46 => { want.extend(ph); want.extend(&am); want.extend(K.agg_sig_puzzle_amount_additional_data.as_slice()); }
                47 => { want.extend(parent); want.extend(&am); want.extend(K.agg_sig_parent_amount_additional_data.as_slice()); }
                48 => { want.extend(parent); want.extend(ph); want.extend(K.agg_sig_parent_puzzle_additional_data.as_slice()); }
                49 => {}
                _ => { want.extend(coin_id); want.extend(K.agg_sig_me_additional_data.as_slice()); }
            }
            let mut got = b"msg".to_vec();
            make_aggsig_final_message(op, &mut got, &spend, &K);
            out.push((format!("aggsig-message/{op}/{amount:#x}"), got == want,
                format!("make_aggsig_final_message(opcode {op}) for a coin of {amount} mojos = {}; by definition {}", hex::encode(&got), hex::encode(&want))));
        }
    }
}

fn cases() -> Vec<(String, bool, String)> {
    let mut out: Vec<(String, bool, String)> = vec![];
    bigint_cases(&mut out);
    aggsig_suffix_cases(&mut out);
    width!(out, u8, "u8"); width!(out, i8, "i8"); width!(out, u16, "u16"); width!(out, i16, "i16");
    width!(out, u32, "u32"); width!(out, i32, "i32"); width!(out, u64, "u64"); width!(out, i64, "i64");
    width!(out, u128, "u128"); width!(out, i128, "i128"); width!(out, usize, "usize"); width!(out, isize, "isize");
    match_byte!(out, 0, 1, 2, 51, 126, 127, 128, 129, 200, 254, 255);
    out
}

pub fn ints_ground() -> EvalResult {
    let mut res = EvalResult { obligations: 0, discharged: 0, failures: vec![], samples: vec![], exhaustive: true };
    for (id, ok, msg) in cases() {
        res.obligations += 1;
        if ok { res.discharged += 1; } else if res.failures.len() < 8 {
            res.failures.push(json!({"id": format!("ints_ground/{id}"), "function": "clvm-traits integer conversions", "message": msg,
                "clause": "every encoder emits the canonical form the interpreter produces; every decoder returns the denoted value or refuses",
                "cex": {"unit": "eval", "function": "ints_ground", "input": {"id": id}}}));
        }
    }
    res.samples.push(json!({"obligation": format!("{} ground obligations: 12 integer widths x boundary values (2^k +- 2, both signs) through to_clvm / from_clvm / Allocator::new_number; MatchByte at the sign boundary", res.obligations), "backend": "native-eval"}));
    res
}

pub fn replay_ints(input: &Value) -> (bool, String) {
    let id = input["id"].as_str().unwrap_or("");
    for (cid, ok, msg) in cases() { if cid == id { return (!ok, msg); } }
    (false, "unknown case".into())
}
