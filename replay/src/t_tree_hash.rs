//! C17 / unit tree_hash: executable twin of `th` (sha256(1‖atom) / sha256(2‖th l‖th r)) vs the real
//! tree_hash, tree_hash_cached (through ONE shared cache over a history of trees) and tree_hash_from_bytes.
use crate::rng::Rng;
use crate::{Budget, Target};
use chia_sha2::Sha256;
use clvm_utils::{tree_hash, tree_hash_cached, tree_hash_from_bytes, TreeCache};
use clvmr::allocator::{Allocator, NodePtr, SExp};
use clvmr::serde::{node_to_bytes, node_to_bytes_backrefs};
use serde_json::{json, Value};

pub struct T;

fn th(a: &Allocator, n: NodePtr) -> [u8; 32] {
    match a.sexp(n) {
        SExp::Atom => { let mut h = Sha256::new(); h.update([1u8]); h.update(a.atom(n).as_ref()); h.finalize() }
        SExp::Pair(l, r) => { let (x, y) = (th(a, l), th(a, r)); let mut h = Sha256::new(); h.update([2u8]); h.update(x); h.update(y); h.finalize() }
    }
}

/// a tree description: nested JSON arrays [l, r] for pairs, hex strings for atoms, {"ref": k} to share node k
fn build(a: &mut Allocator, v: &Value, made: &mut Vec<NodePtr>) -> NodePtr {
    let n = match v {
        Value::String(s) => a.new_atom(&hex::decode(s).unwrap()).unwrap(),
        Value::Array(p) => { let l = build(a, &p[0], made); let r = build(a, &p[1], made); a.new_pair(l, r).unwrap() }
        Value::Object(o) => made[o["ref"].as_u64().unwrap() as usize % made.len().max(1)],
        _ => a.nil(),
    };
    made.push(n);
    n
}

fn gen_tree(r: &mut Rng, depth: u32, made: &mut usize) -> Value {
    *made += 1;
    if depth == 0 || r.below(3) == 0 {
        let atoms = ["", "00", "01", "17", "18", "7f", "80", "ff", "0000", "0100", "00ff", "deadbeef"];
        if r.below(4) == 0 { let n = r.below(40) as usize; json!(hex::encode(r.bytes(n))) } else { json!(*r.pick(&atoms)) }
    } else if *made > 3 && r.below(4) == 0 {
        json!({"ref": r.below(*made as u64)})
    } else {
        json!([gen_tree(r, depth - 1, made), gen_tree(r, depth - 1, made)])
    }
}

/// history = list of trees hashed through one cache
fn check(history: &Value) -> (bool, String) {
    let mut a = Allocator::new();
    let mut cache = TreeCache::default();
    for (k, t) in history.as_array().cloned().unwrap_or_default().iter().enumerate() {
        let mut made = vec![];
        let n = build(&mut a, t, &mut made);
        let want = th(&a, n);
        let plain = tree_hash(&a, n).to_bytes();
        if plain != want { return (true, format!("tree #{k}: tree_hash = {} ; definition = {}", hex::encode(plain), hex::encode(want))); }
        // twice through the shared cache (second pass hits memoised entries)
        for pass in 0..2 {
            let c = tree_hash_cached(&a, n, &mut cache).to_bytes();
            if c != want { return (true, format!("tree #{k} pass {pass}: tree_hash_cached = {} ; definition = {}", hex::encode(c), hex::encode(want))); }
        }
        for (name, bytes) in [("plain", node_to_bytes(&a, n)), ("backrefs", node_to_bytes_backrefs(&a, n))] {
            if let Ok(b) = bytes {
                match tree_hash_from_bytes(&b) {
                    Ok(h) if h.to_bytes() == want => {}
                    other => return (true, format!("tree #{k}: tree_hash_from_bytes({name} serialisation) = {:?} ; definition = {}", other.map(|h| hex::encode(h.to_bytes())), hex::encode(want))),
                }
            }
        }
    }
    (false, "all routines agree with the definition".into())
}

impl Target for T {
    fn search(&self, _function: &str, seed: u64, budget: &Budget) -> Option<Value> {
        let mut r = Rng::new(seed);
        while budget.left() {
            for _ in 0..50 {
                let n = 1 + r.below(4) as usize;
                let mut hist = vec![];
                for _ in 0..n { let mut made = 0; let d = 1 + r.below(5) as u32; hist.push(gen_tree(&mut r, d, &mut made)); }
                let h = Value::Array(hist);
                if check(&h).0 { return Some(json!({"history": h})); }
            }
        }
        None
    }
    fn replay(&self, input: &Value) -> Result<(bool, String), String> { Ok(check(&input["history"])) }
}

/// C17 ground side: every routine against the definition on atoms around each length boundary of the canonical integer
/// encoding (where clvmr switches between inline small atoms and heap atoms, and where a leading zero appears), alone and
/// inside trees with shared subtrees
pub fn tree_hash_ground() -> crate::eval::EvalResult {
    let mut res = crate::eval::EvalResult { obligations: 0, discharged: 0, failures: vec![], samples: vec![], exhaustive: true };
    fn canon(v: u64) -> Vec<u8> {
        if v == 0 { return vec![]; }
        let b = v.to_be_bytes();
        let mut i = 0;
        while b[i] == 0 { i += 1; }
        let mut o = vec![];
        if b[i] & 0x80 != 0 { o.push(0); }
        o.extend_from_slice(&b[i..]);
        o
    }
    let mut atoms: Vec<Vec<u8>> = vec![];
    for base in [0u64, 0x18, 0x80, 0x100, 0x8000, 0x1_0000, 0x80_0000, 0x100_0000, 0x400_0000, 0x8000_0000, 0x1_0000_0000] {
        for d in -2i64..=2 {
            let v = base as i64 + d;
            if v >= 0 { atoms.push(canon(v as u64)); }
        }
    }
    // non-canonical and negative byte strings of the same lengths
    for raw in [vec![0u8], vec![0, 0], vec![0, 0x7f], vec![0xff], vec![0xff, 0xff], vec![0x80, 0, 0], vec![0, 0, 0x80, 0, 0], vec![1, 0x80, 0, 0], vec![9u8; 32], vec![7u8; 48]] { atoms.push(raw); }
    for (i, at) in atoms.iter().enumerate() {
        let h = hex::encode(at);
        for (shape, tree) in [("alone", json!(h)), ("in-pair", json!([h, "01"])), ("shared", json!([[h, h], [{"ref": 0}, [h, "ff"]]]))] {
            res.obligations += 1;
            let hist = json!([tree]);
            let (bad, msg) = check(&hist);
            if !bad { res.discharged += 1; } else if res.failures.len() < 6 {
                res.failures.push(json!({"id": format!("tree_hash_ground/atom-{h}/{shape}"), "function": "tree_hash / tree_hash_cached / tree_hash_from_bytes",
                    "message": format!("atom 0x{h} ({shape}): {msg}"), "clause": "every routine == sha256(1 ‖ atom) / sha256(2 ‖ left ‖ right)",
                    "cex": {"unit": "tree_hash", "function": "tree_hash", "input": {"history": hist}}}));
            }
            let _ = i;
        }
    }
    res.samples.push(json!({"obligation": format!("{} ground comparisons: {} atoms around every length boundary of the canonical encoding x 3 tree shapes, every routine vs the definition", res.obligations, atoms.len()), "backend": "native-eval"}));
    res
}

/// C17 ground side, currying: for 0..=5 arguments, the hash computed from hashes alone (curry_tree_hash) against the tree
/// hash of the actual curried program - built by hand as (a (q . P) (c (q . A1) (c (q . A2) ... 1))) and, for the arities
/// the type-level argument lists allow here, by clvm_utils::CurriedProgram::to_clvm - and against the ToTreeHash encoder
pub fn curry_ground() -> crate::eval::EvalResult {
    use clvm_traits::{clvm_curried_args, ToClvm};
    use clvm_utils::{curry_tree_hash, CurriedProgram, ToTreeHash, TreeHash};
    let mut res = crate::eval::EvalResult { obligations: 0, discharged: 0, failures: vec![], samples: vec![], exhaustive: true };
    let mut fail = |res: &mut crate::eval::EvalResult, id: String, msg: String| {
        if res.failures.len() < 6 {
            res.failures.push(json!({"id": format!("curry_ground/{id}"), "function": "curry_tree_hash / CurriedProgram", "message": msg,
                "clause": "curry_tree_hash(th(P), [th(Ai)]) == tree hash of the curried program",
                "cex": {"unit": "eval", "function": "curry_ground", "input": {"id": id}}}));
        }
    };
    // programs and arguments: atoms at encoding boundaries and small trees
    let progs: Vec<Value> = vec![json!("02"), json!(""), json!(["01", "80"]), json!([["02", "05"], ["0b", ["11", "00800000"]]])];
    let args: Vec<Value> = vec![json!(""), json!("01"), json!("80"), json!(["01", "02"]), json!("00800000"), json!([["ff", ""], "deadbeef"])];
    for (pi, pv) in progs.iter().enumerate() {
        for n in 0..=5usize {
            res.obligations += 1;
            let mut a = Allocator::new();
            let mut made = vec![];
            let p = build(&mut a, pv, &mut made);
            let arg_nodes: Vec<NodePtr> = (0..n).map(|i| { let mut m = vec![]; build(&mut a, &args[(pi + i) % args.len()], &mut m) }).collect();
            // (c (q . A) rest) chains ending in the atom 1
            let one = a.new_atom(&[1]).unwrap();
            let q = one;
            let c = a.new_atom(&[4]).unwrap();
            let op_a = a.new_atom(&[2]).unwrap();
            let nil = a.nil();
            let mut chain = one;
            for an in arg_nodes.iter().rev() {
                let qa = a.new_pair(q, *an).unwrap();
                let t = a.new_pair(chain, nil).unwrap();
                let t = a.new_pair(qa, t).unwrap();
                chain = a.new_pair(c, t).unwrap();
            }
            let qp = a.new_pair(q, p).unwrap();
            let t = a.new_pair(chain, nil).unwrap();
            let t = a.new_pair(qp, t).unwrap();
            let curried = a.new_pair(op_a, t).unwrap();
            let want = th(&a, curried);
            let hashes: Vec<TreeHash> = arg_nodes.iter().map(|x| TreeHash::new(th(&a, *x))).collect();
            let got = curry_tree_hash(TreeHash::new(th(&a, p)), &hashes).to_bytes();
            let mut ok = true;
            if got != want { ok = false; fail(&mut res, format!("program-{pi}/args-{n}/from-hashes"), format!("curry_tree_hash with {n} argument(s) = {} ; tree hash of the curried program = {}", hex::encode(got), hex::encode(want))); }
            if tree_hash(&a, curried).to_bytes() != want { ok = false; fail(&mut res, format!("program-{pi}/args-{n}/tree-hash"), "tree_hash of the curried program differs from the definition".into()); }
            // the typed constructor, where the arity is expressible here
            let typed: Option<Result<NodePtr, clvm_traits::ToClvmError>> = match n {
                0 => Some(CurriedProgram { program: p, args: clvm_curried_args!() }.to_clvm(&mut a)),
                1 => Some(CurriedProgram { program: p, args: clvm_curried_args!(arg_nodes[0]) }.to_clvm(&mut a)),
                2 => Some(CurriedProgram { program: p, args: clvm_curried_args!(arg_nodes[0], arg_nodes[1]) }.to_clvm(&mut a)),
                3 => Some(CurriedProgram { program: p, args: clvm_curried_args!(arg_nodes[0], arg_nodes[1], arg_nodes[2]) }.to_clvm(&mut a)),
                _ => None,
            };
            if let Some(t) = typed {
                match t {
                    Ok(node) if th(&a, node) == want => {}
                    _ => { ok = false; fail(&mut res, format!("program-{pi}/args-{n}/curried-program"), format!("CurriedProgram::to_clvm with {n} argument(s) is not the curried program (a (q . P) (c (q . A) ...))")); }
                }
            }
            // the hash-only encoder: currying tree hashes gives the same digest
            let th_p = TreeHash::new(th(&a, p));
            let enc = match n {
                0 => Some(CurriedProgram { program: th_p, args: clvm_curried_args!() }.tree_hash()),
                1 => Some(CurriedProgram { program: th_p, args: clvm_curried_args!(hashes[0]) }.tree_hash()),
                2 => Some(CurriedProgram { program: th_p, args: clvm_curried_args!(hashes[0], hashes[1]) }.tree_hash()),
                _ => None,
            };
            if let Some(e) = enc {
                if e.to_bytes() != want { ok = false; fail(&mut res, format!("program-{pi}/args-{n}/tree-hasher"), format!("ToTreeHash of CurriedProgram over hashes with {n} argument(s) differs from the tree hash of the curried program")); }
            }
            if ok { res.discharged += 1; }
        }
    }
    res.samples.push(json!({"obligation": format!("{} ground comparisons: {} programs x 0..=5 arguments: curry_tree_hash / CurriedProgram::to_clvm / ToTreeHash vs the hand-built curried tree", res.obligations, progs.len()), "backend": "native-eval"}));
    res
}

pub fn replay_curry(input: &Value) -> (bool, String) {
    let r = curry_ground();
    let id = input["id"].as_str().unwrap_or("");
    for f in &r.failures { if f["cex"]["input"]["id"].as_str() == Some(id) { return (true, f["message"].as_str().unwrap_or("").to_string()); } }
    (false, format!("{id}: agrees"))
}
