//! C03 / unit time_locks: executable twin of `all_ok` (contracts/time_locks.vrs) vs the real check_time_locks.
use crate::rng::Rng;
use crate::{Budget, Target};
use chia_consensus::check_time_locks::check_time_locks;
use chia_consensus::owned_conditions::{OwnedSpendBundleConditions, OwnedSpendConditions};
use chia_protocol::{Bytes32, Coin, CoinRecord};
use serde_json::{json, Value};
use std::collections::HashMap;

pub struct T;

fn sat32(a: u32, b: u32) -> u32 { a.saturating_add(b) }

/// line-for-line reading of `spend_ok` / `bundle_abs_ok` / `all_ok`
fn spec(recs: &HashMap<Bytes32, CoinRecord>, c: &OwnedSpendBundleConditions, h: u32, t: u64) -> bool {
    if !(h >= c.height_absolute) { return false; }
    if !(t >= c.seconds_absolute) { return false; }
    if let Some(b) = c.before_height_absolute { if !(h < b) { return false; } }
    if let Some(b) = c.before_seconds_absolute { if !(t < b) { return false; } }
    for s in &c.spends {
        let Some(rec) = recs.get(&s.coin_id) else { return false; };
        if let Some(b) = s.birth_height { if b != rec.confirmed_block_index { return false; } }
        if let Some(b) = s.birth_seconds { if b != rec.timestamp { return false; } }
        if let Some(d) = s.height_relative { if !(h >= sat32(rec.confirmed_block_index, d)) { return false; } }
        if let Some(d) = s.seconds_relative { if !(t >= rec.timestamp.saturating_add(d)) { return false; } }
        if let Some(d) = s.before_height_relative { if !(h < sat32(rec.confirmed_block_index, d)) { return false; } }
        if let Some(d) = s.before_seconds_relative { if !(t < rec.timestamp.saturating_add(d)) { return false; } }
    }
    true
}

fn opt32(v: &Value) -> Option<u32> { v.as_u64().map(|x| x as u32) }
fn opt64(v: &Value) -> Option<u64> { v.as_u64() }

fn build(input: &Value) -> (HashMap<Bytes32, CoinRecord>, OwnedSpendBundleConditions, u32, u64) {
    let mut recs = HashMap::new();
    let mut c = OwnedSpendBundleConditions::default();
    c.height_absolute = input["height_absolute"].as_u64().unwrap_or(0) as u32;
    c.seconds_absolute = input["seconds_absolute"].as_u64().unwrap_or(0);
    c.before_height_absolute = opt32(&input["before_height_absolute"]);
    c.before_seconds_absolute = opt64(&input["before_seconds_absolute"]);
    for (i, s) in input["spends"].as_array().cloned().unwrap_or_default().iter().enumerate() {
        let mut id = [0u8; 32];
        id[0] = i as u8;
        id[1] = (i >> 8) as u8;
        let id = Bytes32::new(id);
        let mut sp = OwnedSpendConditions::default();
        sp.coin_id = id;
        sp.height_relative = opt32(&s["height_relative"]);
        sp.seconds_relative = opt64(&s["seconds_relative"]);
        sp.before_height_relative = opt32(&s["before_height_relative"]);
        sp.before_seconds_relative = opt64(&s["before_seconds_relative"]);
        sp.birth_height = opt32(&s["birth_height"]);
        sp.birth_seconds = opt64(&s["birth_seconds"]);
        c.spends.push(sp);
        if !s["missing_record"].as_bool().unwrap_or(false) {
            recs.insert(id, CoinRecord::new(
                Coin::new(Bytes32::default(), Bytes32::default(), 1),
                s["confirmed"].as_u64().unwrap_or(0) as u32, 0, false,
                s["rec_timestamp"].as_u64().unwrap_or(0)));
        }
    }
    (recs, c, input["height"].as_u64().unwrap_or(0) as u32, input["timestamp"].as_u64().unwrap_or(0))
}

fn disagree(input: &Value) -> (bool, String) {
    let (recs, c, h, t) = build(input);
    let real = check_time_locks(&recs, &c, h, t, true);
    let want = spec(&recs, &c, h, t);
    (real.is_ok() != want, format!("check_time_locks(nowrap=true) = {:?}; spec all_ok = {}", real, want))
}

fn o32(r: &mut Rng, near: u32) -> Value {
    match r.below(3) { 0 => Value::Null, 1 => json!(near.wrapping_add(r.below(3) as u32).wrapping_sub(1)), _ => json!(r.boundary_u32()) }
}
fn o64(r: &mut Rng, near: u64) -> Value {
    match r.below(3) { 0 => Value::Null, 1 => json!(near.wrapping_add(r.below(3)).wrapping_sub(1)), _ => json!(r.boundary_u64()) }
}

fn gen_input(r: &mut Rng) -> Value {
    let h = r.boundary_u32();
    let t = r.boundary_u64();
    let n = r.below(3) as usize + (r.below(4) == 0) as usize;
    let mut spends = vec![];
    for _ in 0..n {
        let conf = if r.below(2) == 0 { h.wrapping_sub(r.below(4) as u32) } else { r.boundary_u32() };
        let ts = if r.below(2) == 0 { t.wrapping_sub(r.below(4)) } else { r.boundary_u64() };
        // pick exactly one active constraint most of the time so that a single wrong
        // comparison is not masked by another failing one
        let mut s = json!({"confirmed": conf, "rec_timestamp": ts, "missing_record": r.below(40) == 0});
        let k = r.below(8);
        let dh = h.wrapping_sub(conf);
        let dt = t.wrapping_sub(ts);
        match k {
            0 => s["height_relative"] = o32(r, dh),
            1 => s["seconds_relative"] = o64(r, dt),
            2 => s["before_height_relative"] = o32(r, dh),
            3 => s["before_seconds_relative"] = o64(r, dt),
            4 => s["birth_height"] = o32(r, conf),
            5 => s["birth_seconds"] = o64(r, ts),
            6 => {}
            _ => {
                s["height_relative"] = o32(r, dh);
                s["seconds_relative"] = o64(r, dt);
                s["before_height_relative"] = o32(r, dh.wrapping_add(1));
                s["before_seconds_relative"] = o64(r, dt.wrapping_add(1));
            }
        }
        spends.push(s);
    }
    let mut input = json!({"height": h, "timestamp": t, "spends": spends,
        "height_absolute": 0, "seconds_absolute": 0});
    match r.below(6) {
        0 => input["height_absolute"] = json!(h.wrapping_add(r.below(3) as u32).wrapping_sub(1)),
        1 => input["seconds_absolute"] = json!(t.wrapping_add(r.below(3)).wrapping_sub(1)),
        2 => input["before_height_absolute"] = o32(r, h),
        3 => input["before_seconds_absolute"] = o64(r, t),
        _ => {}
    }
    input
}

impl Target for T {
    fn search(&self, _function: &str, seed: u64, budget: &Budget) -> Option<Value> {
        let mut r = Rng::new(seed);
        while budget.left() {
            for _ in 0..2000 {
                let input = gen_input(&mut r);
                if disagree(&input).0 {
                    return Some(input);
                }
            }
        }
        None
    }
    fn replay(&self, input: &Value) -> Result<(bool, String), String> {
        Ok(disagree(input))
    }
}

/// C03 ground side: the real check_time_locks against the line-for-line reading of the rule on (a) a boundary grid - every
/// kind of assertion exactly met, one short, one over, with sums that saturate - and (b) a fixed pseudo-random sample of the
/// searcher's input distribution
pub fn time_locks_ground(thorough: bool) -> crate::eval::EvalResult {
    let mut res = crate::eval::EvalResult { obligations: 0, discharged: 0, failures: vec![], samples: vec![], exhaustive: true };
    let mut inputs: Vec<(String, Value)> = vec![];
    let hs: [u32; 6] = [0, 1, 1000, 0x7fff_ffff, u32::MAX - 1, u32::MAX];
    let ts: [u64; 6] = [0, 1, 1_000_000, 0x7fff_ffff_ffff_ffff, u64::MAX - 1, u64::MAX];
    for (hi, h) in hs.iter().enumerate() {
        let t = ts[hi];
        for dconf in [0u32, 1, 5] {
            let conf = h.saturating_sub(dconf);
            let rts = t.saturating_sub(dconf as u64);
            for delta in [-1i64, 0, 1] {
                let dh = (dconf as i64 + delta).max(0) as u32;
                let dt = (dconf as i64 + delta).max(0) as u64;
                for (kind, field, v) in [("height-relative", "height_relative", json!(dh)), ("seconds-relative", "seconds_relative", json!(dt)),
                                         ("before-height-relative", "before_height_relative", json!(dh)), ("before-seconds-relative", "before_seconds_relative", json!(dt)),
                                         ("birth-height", "birth_height", json!(conf.wrapping_add(delta as u32))), ("birth-seconds", "birth_seconds", json!(rts.wrapping_add(delta as u64)))] {
                    let mut s = json!({"confirmed": conf, "rec_timestamp": rts, "missing_record": false});
                    s[field] = v;
                    inputs.push((format!("{kind}/h{hi}-c{dconf}-d{delta:+}"), json!({"height": h, "timestamp": t, "spends": [s], "height_absolute": 0, "seconds_absolute": 0})));
                    // the same constraint on the second of two spends, the first unconstrained
                    let s0 = json!({"confirmed": 0, "rec_timestamp": 0, "missing_record": false});
                    let mut s1 = json!({"confirmed": conf, "rec_timestamp": rts, "missing_record": false});
                    s1[field] = inputs.last().unwrap().1["spends"][0][field].clone();
                    inputs.push((format!("{kind}/second-spend/h{hi}-c{dconf}-d{delta:+}"), json!({"height": h, "timestamp": t, "spends": [s0, s1], "height_absolute": 0, "seconds_absolute": 0})));
                }
                // sums that saturate: a relative lock far beyond the end of the range
                for (kind, field, v) in [("height-relative-saturating", "height_relative", json!(u32::MAX - (dconf + 1).min(3) + 1)), ("seconds-relative-saturating", "seconds_relative", json!(u64::MAX - 1)),
                                         ("before-height-relative-saturating", "before_height_relative", json!(u32::MAX)), ("before-seconds-relative-saturating", "before_seconds_relative", json!(u64::MAX))] {
                    let mut s = json!({"confirmed": conf, "rec_timestamp": rts, "missing_record": false});
                    s[field] = v;
                    inputs.push((format!("{kind}/h{hi}-c{dconf}-d{delta:+}"), json!({"height": h, "timestamp": t, "spends": [s], "height_absolute": 0, "seconds_absolute": 0})));
                }
                // absolute locks
                let ha = (*h as i64 + delta).clamp(0, u32::MAX as i64) as u32;
                let ta = (t as i128 + delta as i128).clamp(0, u64::MAX as i128) as u64;
                inputs.push((format!("height-absolute/h{hi}-d{delta:+}"), json!({"height": h, "timestamp": t, "spends": [], "height_absolute": ha, "seconds_absolute": 0})));
                inputs.push((format!("seconds-absolute/h{hi}-d{delta:+}"), json!({"height": h, "timestamp": t, "spends": [], "height_absolute": 0, "seconds_absolute": ta})));
                inputs.push((format!("before-height-absolute/h{hi}-d{delta:+}"), json!({"height": h, "timestamp": t, "spends": [], "height_absolute": 0, "seconds_absolute": 0, "before_height_absolute": ha})));
                inputs.push((format!("before-seconds-absolute/h{hi}-d{delta:+}"), json!({"height": h, "timestamp": t, "spends": [], "height_absolute": 0, "seconds_absolute": 0, "before_seconds_absolute": ta})));
            }
        }
        // a spend whose coin record is missing
        inputs.push((format!("missing-record/h{hi}"), json!({"height": h, "timestamp": t, "spends": [{"confirmed": 0, "rec_timestamp": 0, "missing_record": true}], "height_absolute": 0, "seconds_absolute": 0})));
    }
    let mut r = Rng::new(0xc03_5eed);
    for k in 0..(if thorough { 400_000 } else { 20_000 }) { inputs.push((format!("sample-{k}"), gen_input(&mut r))); }
    for (name, input) in &inputs {
        res.obligations += 1;
        let (bad, msg) = disagree(input);
        if !bad { res.discharged += 1; } else if res.failures.len() < 6 {
            res.failures.push(json!({"id": format!("time_locks_ground/{name}"), "function": "check_time_locks", "message": format!("{name}: {msg}; input {input}"),
                "clause": "check_time_locks accepts exactly when every absolute, relative (saturating) and birth assertion holds",
                "cex": {"unit": "time_locks", "function": "check_time_locks", "input": input}}));
        }
    }
    res.samples.push(json!({"obligation": format!("{} ground inputs: boundary grid over the ten assertion kinds (met / one short / one over, saturating sums, second spend, missing record) + fixed pseudo-random sample", res.obligations), "backend": "native-eval"}));
    res
}
