//! C19 ground side (fast-forward): the singleton spends shipped in /repo/ff-tests, rebased onto a later generation.
//! A genuine rebase is accepted, the rewritten solution runs on the new coin and creates the same coins as the original
//! spend did; every rebase that is not a genuine one (new coin not the child of the new parent, puzzle hash or amount
//! disagreeing, even amount, a coin that is not the one the solution spends) is refused.
use crate::eval::EvalResult;
use chia_bls::Signature;
use chia_consensus::consensus_constants::TEST_CONSTANTS;
use chia_consensus::fast_forward::fast_forward_singleton;
use chia_consensus::flags::{ConsensusFlags, MEMPOOL_MODE};
use chia_consensus::owned_conditions::OwnedSpendBundleConditions;
use chia_consensus::spendbundle_conditions::run_spendbundle;
use chia_protocol::{Bytes32, Coin, CoinSpend, Program, SpendBundle};
use chia_traits::Streamable;
use clvm_traits::ToClvm;
use clvm_utils::tree_hash;
use clvmr::allocator::Allocator;
use clvmr::serde::node_to_bytes;
use serde_json::{json, Value};

const DIR: &str = "/repo/ff-tests";

fn created(coin: Coin, puzzle: &Program, solution: &[u8]) -> Result<Vec<(Vec<u8>, u64)>, String> {
    let bundle = SpendBundle::new(vec![CoinSpend::new(coin, puzzle.clone(), Program::new(solution.to_vec().into()))], Signature::default());
    let mut a = Allocator::new_limited(500_000_000);
    match run_spendbundle(&mut a, &bundle, 11_000_000_000, MEMPOOL_MODE | ConsensusFlags::DONT_VALIDATE_SIGNATURE, &TEST_CONSTANTS) {
        Ok((c, _)) => {
            let o = OwnedSpendBundleConditions::from(&a, c);
            let mut v: Vec<(Vec<u8>, u64)> = o.spends.iter().flat_map(|s| s.create_coin.iter().map(|(p, am, _)| (p.to_vec(), *am))).collect();
            v.sort();
            Ok(v)
        }
        Err(e) => Err(format!("{e:?}")),
    }
}

/// variants of the rebase target: (name, is a genuine rebase, builder of (new_coin, new_parent, coin) from the honest ones)
fn variants() -> Vec<(&'static str, bool, fn(Coin, Coin, Coin) -> (Coin, Coin, Coin))> {
    vec![
        ("genuine", true, |nc, np, c| (nc, np, c)),
        ("new-coin-not-child", false, |nc, np, c| (Coin::new([0xcd; 32].into(), nc.puzzle_hash, nc.amount), np, c)),
        ("new-coin-other-puzzle-hash", false, |nc, np, c| (Coin::new(nc.parent_coin_info, [0x11; 32].into(), nc.amount), np, c)),
        ("new-parent-other-puzzle-hash", false, |nc, np, c| { let p = Coin::new(np.parent_coin_info, [0x11; 32].into(), np.amount); (Coin::new(p.coin_id(), nc.puzzle_hash, nc.amount), p, c) }),
        ("new-coin-even-amount", false, |nc, np, c| (Coin::new(nc.parent_coin_info, nc.puzzle_hash, nc.amount + 1), np, c)),
        ("new-parent-even-amount", false, |nc, np, c| { let p = Coin::new(np.parent_coin_info, np.puzzle_hash, np.amount + 1); (Coin::new(p.coin_id(), nc.puzzle_hash, nc.amount), p, c) }),
        ("spent-coin-other-amount", false, |nc, np, c| (nc, np, Coin::new(c.parent_coin_info, c.puzzle_hash, c.amount + 2))),
        ("spent-coin-other-parent", false, |nc, np, c| (nc, np, Coin::new([0x77; 32].into(), c.puzzle_hash, c.amount))),
        ("spent-coin-other-puzzle-hash", false, |nc, np, c| (nc, np, Coin::new(c.parent_coin_info, [0x11; 32].into(), c.amount))),
        // "rebasing" onto the very coin the spend was made for, under a parent that is not its parent
        ("same-coin-unrelated-parent", false, |_nc, np, c| (c, np, c)),
        ("same-coin-parent-other-amount", false, |_nc, np, c| (c, Coin::new(np.parent_coin_info, np.puzzle_hash, np.amount + 2), c)),
    ]
}

fn spend_files() -> Vec<String> {
    let mut v: Vec<String> = std::fs::read_dir(DIR).map(|d| d.filter_map(|e| e.ok()).filter_map(|e| e.file_name().into_string().ok())
        .filter(|n| n.ends_with(".spend")).collect()).unwrap_or_default();
    v.sort();
    let custom: Vec<String> = v.iter().map(|f| format!("{f}+custom-launcher")).collect();
    v.extend(custom);
    v
}


/// the same singleton spend under a launcher that is not the standard one: the curried singleton struct's launcher puzzle hash
/// is replaced, and the coin is re-derived so that the spend is consistent (its parent id is the one the puzzle itself asserts)
fn custom_launcher(spend: &CoinSpend) -> Option<CoinSpend> {
    use clvmr::allocator::SExp;
    let mut a = Allocator::new_limited(500_000_000);
    let puzzle = spend.puzzle_reveal.to_clvm(&mut a).ok()?;
    let pair = |a: &Allocator, n| match a.sexp(n) { SExp::Pair(l, r) => Some((l, r)), SExp::Atom => None };
    // (a (q . MOD) (c (q . STRUCT) REST))
    let (op_a, t1) = pair(&a, puzzle)?;
    let (qmod, t2) = pair(&a, t1)?;
    let (args, t3) = pair(&a, t2)?;
    let (op_c, u1) = pair(&a, args)?;
    let (qstruct, u2) = pair(&a, u1)?;
    let (q1, st) = pair(&a, qstruct)?;
    let (mod_hash, st2) = pair(&a, st)?;
    let (launcher_id, launcher_ph) = pair(&a, st2)?;
    if !matches!(a.sexp(launcher_ph), SExp::Atom) || a.atom_len(launcher_ph) != 32 { return None; }
    let new_lph = a.new_atom(&[0x42; 32]).ok()?;
    let st2n = a.new_pair(launcher_id, new_lph).ok()?;
    let stn = a.new_pair(mod_hash, st2n).ok()?;
    let qstructn = a.new_pair(q1, stn).ok()?;
    let u1n = a.new_pair(qstructn, u2).ok()?;
    let argsn = a.new_pair(op_c, u1n).ok()?;
    let t2n = a.new_pair(argsn, t3).ok()?;
    let t1n = a.new_pair(qmod, t2n).ok()?;
    let puzzlen = a.new_pair(op_a, t1n).ok()?;
    let new_ph = Bytes32::from(tree_hash(&a, puzzlen));
    let new_puzzle = Program::new(node_to_bytes(&a, puzzlen).ok()?.into());
    // what parent id does the puzzle assert for itself?  (ASSERT_MY_PARENT_ID = 71)
    let (_, conds) = new_puzzle.run(&mut a, clvmr::ClvmFlags::empty(), 11_000_000_000, &spend.solution).ok()?;
    let mut it = conds;
    let mut parent: Option<[u8; 32]> = None;
    while let Some((c, rest)) = pair(&a, it) {
        it = rest;
        if let Some((op, args)) = pair(&a, c) {
            if matches!(a.sexp(op), SExp::Atom) && a.atom(op).as_ref() == [71u8] {
                if let Some((id, _)) = pair(&a, args) { if matches!(a.sexp(id), SExp::Atom) { parent = <[u8; 32]>::try_from(a.atom(id).as_ref()).ok(); } }
            }
        }
    }
    let parent = parent?;
    Some(CoinSpend::new(Coin::new(parent.into(), new_ph, spend.coin.amount), new_puzzle, spend.solution.clone()))
}

fn load_spend(file: &str) -> Option<CoinSpend> {
    let (base, custom) = match file.strip_suffix("+custom-launcher") { Some(b) => (b, true), None => (file, false) };
    let bytes = std::fs::read(format!("{DIR}/{base}")).ok()?;
    let spend = CoinSpend::from_bytes(&bytes).ok()?;
    if custom { custom_launcher(&spend) } else { Some(spend) }
}

fn check_one(file: &str, vname: &str) -> Option<Result<(), String>> {
    let spend = load_spend(file)?;
    let (_, genuine, mk) = variants().into_iter().find(|v| v.0 == vname)?;
    let mut a = Allocator::new_limited(500_000_000);
    let puzzle = spend.puzzle_reveal.to_clvm(&mut a).ok()?;
    let solution = spend.solution.to_clvm(&mut a).ok()?;
    let puzzle_hash = Bytes32::from(tree_hash(&a, puzzle));
    // only spends that are valid as shipped take part
    let before = created(spend.coin, &spend.puzzle_reveal, spend.solution.as_slice()).ok()?;
    let new_parent = Coin::new([0xab; 32].into(), puzzle_hash, spend.coin.amount);
    let new_coin = Coin::new(new_parent.coin_id(), puzzle_hash, spend.coin.amount);
    let (nc, np, c) = mk(new_coin, new_parent, spend.coin);
    let r = fast_forward_singleton(&mut a, puzzle, solution, &c, &nc, &np).map(|s| node_to_bytes(&a, s).expect("serialize"));
    Some(match (genuine, r) {
        (true, Err(e)) => Err(format!("a genuine rebase is refused: {e:?}")),
        (true, Ok(new_solution)) => match created(nc, &spend.puzzle_reveal, &new_solution) {
            Err(e) => Err(format!("the rewritten spend does not run on the new coin: {e}")),
            Ok(after) => if after == before { Ok(()) } else { Err(format!("the rewritten spend creates {after:?}, the original {before:?}")) },
        },
        (false, Ok(_)) => Err("a rebase that is not a genuine one is accepted".into()),
        (false, Err(_)) => Ok(()),
    })
}

pub fn ff_ground() -> EvalResult {
    let mut res = EvalResult { obligations: 0, discharged: 0, failures: vec![], samples: vec![], exhaustive: true };
    let files = spend_files();
    let mut used = 0;
    for f in &files {
        let mut any = false;
        for (vname, _, _) in variants() {
            let Some(r) = check_one(f, vname) else { continue; };
            any = true;
            res.obligations += 1;
            match r {
                Ok(()) => res.discharged += 1,
                Err(m) => if res.failures.len() < 8 {
                    res.failures.push(json!({"id": format!("ff_ground/{f}/{vname}"), "function": "fast_forward_singleton", "message": format!("{f}, rebase variant {vname}: {m}"),
                        "clause": "a genuine singleton rebase is accepted, runs on the new coin and creates the same coins; anything else is refused",
                        "cex": {"unit": "eval", "function": "ff_ground", "input": {"file": f, "variant": vname}}}));
                },
            }
        }
        if any { used += 1; }
    }
    if used == 0 {
        res.obligations += 1;
        res.failures.push(json!({"id": "ff_ground/no-test-vectors", "function": "fast_forward_singleton", "message": format!("no usable singleton spend under {DIR}"), "clause": "test vectors present",
            "cex": {"unit": "eval", "function": "ff_ground", "input": {"file": "", "variant": ""}}}));
    }
    res.samples.push(json!({"obligation": format!("{} ground obligations: {} singleton spends of {DIR} x {} rebase variants", res.obligations, used, variants().len()), "backend": "native-eval"}));
    res
}

pub fn replay_ff(input: &Value) -> (bool, String) {
    let f = input["file"].as_str().unwrap_or(""); let v = input["variant"].as_str().unwrap_or("");
    match check_one(f, v) { Some(Err(m)) => (true, format!("{f}, {v}: {m}")), Some(Ok(())) => (false, format!("{f}, {v}: holds")), None => (false, "not applicable".into()) }
}
