//! C12 / unit merkle_set: executable twin of `trie` / `root_spec` (contracts/merkle_set.vrs) vs the real
//! compute_merkle_set_root.
use crate::rng::Rng;
use crate::{Budget, Target};
use chia_consensus::merkle_set::compute_merkle_set_root;
use chia_sha2::Sha256;
use serde_json::{json, Value};

pub struct T;

#[derive(Clone, Copy, PartialEq)]
enum NT { Empty, Term, Mid, MidDbl }
fn enc(t: NT) -> u8 { match t { NT::Empty => 0, NT::Term => 1, NT::Mid | NT::MidDbl => 2 } }
fn bit_at(v: &[u8; 32], i: usize) -> u8 { if v[i / 8] & (0x80u8 >> (i % 8)) != 0 { 1 } else { 0 } }
fn mhash(lt: NT, rt: NT, l: &[u8; 32], r: &[u8; 32]) -> [u8; 32] {
    let mut h = Sha256::new();
    h.update([0u8; 30]); h.update([enc(lt), enc(rt)]); h.update(l); h.update(r);
    h.finalize()
}
fn fwd(c: ([u8; 32], NT), left_empty: bool) -> ([u8; 32], NT) {
    if c.1 == NT::Mid {
        if left_empty { (mhash(NT::Empty, NT::Mid, &[0; 32], &c.0), NT::Mid) } else { (mhash(NT::Mid, NT::Empty, &c.0, &[0; 32]), NT::Mid) }
    } else { c }
}
/// spec `trie` over a set (sorted, deduplicated vector)
fn trie(s: &[[u8; 32]], d: usize) -> ([u8; 32], NT) {
    if s.is_empty() { return ([0; 32], NT::Empty); }
    if s.len() == 1 { return (s[0], NT::Term); }
    assert!(d < 256);
    let z: Vec<[u8; 32]> = s.iter().copied().filter(|v| bit_at(v, d) == 0).collect();
    let o: Vec<[u8; 32]> = s.iter().copied().filter(|v| bit_at(v, d) == 1).collect();
    if z.is_empty() { return fwd(trie(&o, d + 1), true); }
    if o.is_empty() { return fwd(trie(&z, d + 1), false); }
    let (l, r) = (trie(&z, d + 1), trie(&o, d + 1));
    (mhash(l.1, r.1, &l.0, &r.0), if l.1 == NT::Term && r.1 == NT::Term { NT::MidDbl } else { NT::Mid })
}
fn root_spec(leafs: &[[u8; 32]]) -> [u8; 32] {
    let mut s = leafs.to_vec();
    s.sort();
    s.dedup();
    if s.is_empty() { return [0; 32]; }
    let t = trie(&s, 0);
    if t.1 == NT::Term { let mut h = Sha256::new(); h.update([1u8]); h.update(t.0); h.finalize() } else { t.0 }
}

fn check(leafs: &[[u8; 32]]) -> (bool, String) {
    let mut work = leafs.to_vec();
    let got = compute_merkle_set_root(&mut work);
    let want = root_spec(leafs);
    (got != want, format!("compute_merkle_set_root({} leaves) = {} ; root_spec(set) = {}", leafs.len(), hex::encode(got), hex::encode(want)))
}

fn gen(r: &mut Rng) -> Vec<[u8; 32]> {
    let n = r.below(7) as usize;
    let mut base = [0u8; 32];
    for b in base.iter_mut() { *b = if r.below(3) == 0 { r.next() as u8 } else { 0 }; }
    let mut out = vec![];
    for _ in 0..n {
        let mut v = base;
        match r.below(5) {
            0 => {}                                                       // duplicate
            1 => { let k = 255 - r.below(3) as usize; v[k / 8] ^= 0x80 >> (k % 8); } // differs only in the last bits
            2 => { let k = r.below(256) as usize; v[k / 8] ^= 0x80 >> (k % 8); }
            3 => { let k = r.below(16) as usize; v[k / 8] ^= 0x80 >> (k % 8); let j = 200 + r.below(56) as usize; v[j / 8] ^= 0x80 >> (j % 8); }
            _ => { for b in v.iter_mut() { *b = r.next() as u8; } }
        }
        out.push(v);
    }
    out
}

impl Target for T {
    fn search(&self, _function: &str, seed: u64, budget: &Budget) -> Option<Value> {
        let mut r = Rng::new(seed);
        while budget.left() {
            for _ in 0..200 {
                let leafs = gen(&mut r);
                if check(&leafs).0 {
                    return Some(json!({"leafs": leafs.iter().map(hex::encode).collect::<Vec<_>>()}));
                }
            }
        }
        None
    }
    fn replay(&self, input: &Value) -> Result<(bool, String), String> {
        let mut leafs = vec![];
        for l in input["leafs"].as_array().ok_or("leafs")? {
            let b = hex::decode(l.as_str().ok_or("hex")?).map_err(|e| e.to_string())?;
            leafs.push(<[u8; 32]>::try_from(b.as_slice()).map_err(|_| "len")?);
        }
        Ok(check(&leafs))
    }
}
