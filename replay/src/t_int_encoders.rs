//! C11 / unit int_encoders: executable twin of `canon` / `uint_class` vs the real encoders.
use crate::rng::Rng;
use crate::{Budget, Target};
use chia_consensus::make_aggsig_final_message::u64_to_bytes;
use chia_consensus::sanitize_int::{sanitize_uint, SanitizedUint};
use chia_consensus::solution_generator::calculate_generator_length;
use chia_consensus::validation_error::{ErrorCode, ValidationErr};
use chia_protocol::{Bytes32, Coin, CoinSpend, Program};
use chia_sha2::Sha256;
use clvmr::Allocator;
use serde_json::{json, Value};

pub struct T;

/// spec `canon`: 0x00 ++ be8(v), then strip redundant leading zeros
pub fn canon(v: u64) -> Vec<u8> {
    let mut s = vec![0u8];
    s.extend_from_slice(&v.to_be_bytes());
    while !s.is_empty() && s[0] == 0 && (s.len() == 1 || s[1] < 0x80) {
        s.remove(0);
    }
    s
}

fn ser_atom_len(s: &[u8]) -> usize {
    if s.is_empty() { 1 } else if s.len() == 1 && s[0] < 0x80 { 1 } else if s.len() < 0x40 { 1 + s.len() } else { 2 + s.len() }
}

fn be_val(s: &[u8]) -> u128 {
    let mut r: u128 = 0;
    for b in s { r = r.saturating_mul(256).saturating_add(*b as u128); }
    r
}

/// spec `uint_class`
fn uint_class(s: &[u8], w: usize) -> String {
    if s.is_empty() { return "Ok(0)".into(); }
    if s[0] >= 0x80 { return "NegativeOverflow".into(); }
    if s[0] == 0 && (s.len() == 1 || s[1] < 0x80) { return "Err".into(); }
    if s.len() > 17 || be_val(s) >= (1u128 << (8 * w)) { return "PositiveOverflow".into(); }
    format!("Ok({})", be_val(s))
}

fn check_u64(function: &str, v: u64) -> (bool, String) {
    match function {
        "u64_to_bytes" => {
            let got = u64_to_bytes(v);
            (got != canon(v), format!("u64_to_bytes({v:#x}) = {} ; canon = {}", hex::encode(&got), hex::encode(canon(v))))
        }
        "coin_id" => {
            let p = Bytes32::new([7; 32]);
            let h = Bytes32::new([9; 32]);
            let got = Coin::new(p, h, v).coin_id();
            let mut s = Sha256::new();
            s.update(p); s.update(h); s.update(canon(v));
            let want = s.finalize();
            (got.as_slice() != want.as_slice(), format!("Coin{{amount: {v:#x}}}.coin_id() = {} ; sha256(parent||ph||canon) = {}", hex::encode(got), hex::encode(want)))
        }
        "clvm_bytes_len" => {
            let cs = CoinSpend::new(Coin::new(Bytes32::new([0; 32]), Bytes32::new([0; 32]), v), Program::from(vec![0x80]), Program::from(vec![0x80]));
            let got = calculate_generator_length([cs]);
            let want = 5 + 39 + 1 + 1 + ser_atom_len(&canon(v));
            (got != want, format!("calculate_generator_length(one spend, amount {v:#x}) = {got} ; predicted from ser_atom_len(canon) = {want}"))
        }
        _ => (false, "unknown function".into()),
    }
}

fn check_atom(atom: &[u8], w: usize) -> (bool, String) {
    let mut a = Allocator::new();
    let n = a.new_atom(atom).unwrap();
    let got = match sanitize_uint(&a, n, w, ValidationErr::Err(ErrorCode::InvalidCoinAmount)) {
        Ok(SanitizedUint::Ok(v)) => format!("Ok({v})"),
        Ok(SanitizedUint::PositiveOverflow) => "PositiveOverflow".into(),
        Ok(SanitizedUint::NegativeOverflow) => "NegativeOverflow".into(),
        Err(_) => "Err".into(),
    };
    let want = uint_class(atom, w);
    (got != want, format!("sanitize_uint({}, {w}) = {got} ; uint_class = {want}", hex::encode(atom)))
}

impl Target for T {
    fn search(&self, function: &str, seed: u64, budget: &Budget) -> Option<Value> {
        let mut r = Rng::new(seed);
        if function == "sanitize_uint" || function == "u64_from_bytes" {
            // all atoms up to 10 bytes with boundary leading bytes, then random
            let lead = [0x00u8, 0x01, 0x7f, 0x80, 0xff];
            for w in [4usize, 8] {
                for len in 0..=10usize {
                    for l0 in lead { for l1 in lead { for fill in [0x00u8, 0xff, 0x5a] {
                        let mut atom = vec![fill; len];
                        if len > 0 { atom[0] = l0; }
                        if len > 1 { atom[1] = l1; }
                        if check_atom(&atom, w).0 { return Some(json!({"kind": "atom", "atom": hex::encode(&atom), "width": w})); }
                    }}}
                }
            }
            while budget.left() {
                for _ in 0..5000 {
                    let len = r.below(11) as usize;
                    let mut atom = r.bytes(len);
                    if len > 0 && r.below(2) == 0 { atom[0] = *r.pick(&lead); }
                    let w = if r.below(2) == 0 { 4 } else { 8 };
                    if check_atom(&atom, w).0 { return Some(json!({"kind": "atom", "atom": hex::encode(&atom), "width": w})); }
                }
            }
            return None;
        }
        let fns: Vec<&str> = match function {
            "u64_to_bytes" | "coin_id" | "clvm_bytes_len" => vec![function],
            _ => vec!["u64_to_bytes", "coin_id", "clvm_bytes_len"],
        };
        // every byte-length class boundary +-1
        let mut cands: Vec<u64> = vec![0, 1, u64::MAX, u64::MAX - 1];
        for k in 0..64u32 { for d in [0u64, 1, 2] { cands.push((1u64 << k).wrapping_add(d).wrapping_sub(1)); } }
        for f in &fns { for &v in &cands {
            if check_u64(f, v).0 { return Some(json!({"kind": "u64", "function": f, "value": v})); }
        }}
        while budget.left() {
            for _ in 0..5000 {
                let v = r.next() >> r.below(64);
                for f in &fns {
                    if check_u64(f, v).0 { return Some(json!({"kind": "u64", "function": f, "value": v})); }
                }
            }
        }
        None
    }
    fn replay(&self, input: &Value) -> Result<(bool, String), String> {
        match input["kind"].as_str() {
            Some("u64") => Ok(check_u64(input["function"].as_str().unwrap_or(""), input["value"].as_u64().ok_or("value")?)),
            Some("atom") => {
                let atom = hex::decode(input["atom"].as_str().ok_or("atom")?).map_err(|e| e.to_string())?;
                Ok(check_atom(&atom, input["width"].as_u64().unwrap_or(8) as usize))
            }
            _ => Err("bad input".into()),
        }
    }
}
