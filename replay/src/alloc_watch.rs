//! C14 ground side (memory): a counting global allocator records the largest single request made while a decoder runs on
//! a hostile input - a short byte string whose length prefixes promise gigabytes.  No decoder may ask the allocator for
//! more than the 2 MiB pre-allocation cap (plus slack proportional to the input actually present).
use crate::eval::EvalResult;
use chia_traits::Streamable;
use serde_json::{json, Value};
use std::alloc::{GlobalAlloc, Layout, System};
use std::sync::atomic::{AtomicBool, AtomicUsize, Ordering};

pub struct Watch;
static ARMED: AtomicBool = AtomicBool::new(false);
static LARGEST: AtomicUsize = AtomicUsize::new(0);
/// requests above this size are refused while armed (the decoder sees an allocation failure instead of exhausting memory)
const REFUSE_ABOVE: usize = 1 << 30;

unsafe impl GlobalAlloc for Watch {
    unsafe fn alloc(&self, l: Layout) -> *mut u8 {
        if ARMED.load(Ordering::Relaxed) {
            LARGEST.fetch_max(l.size(), Ordering::Relaxed);
            if l.size() > REFUSE_ABOVE { return std::ptr::null_mut(); }
        }
        System.alloc(l)
    }
    unsafe fn dealloc(&self, p: *mut u8, l: Layout) { System.dealloc(p, l) }
    unsafe fn realloc(&self, p: *mut u8, l: Layout, n: usize) -> *mut u8 {
        if ARMED.load(Ordering::Relaxed) {
            LARGEST.fetch_max(n, Ordering::Relaxed);
            if n > REFUSE_ABOVE { return std::ptr::null_mut(); }
        }
        System.realloc(p, l, n)
    }
}

/// largest single allocation request while f runs (single-threaded use only)
fn watch<R>(f: impl FnOnce() -> R) -> (usize, std::thread::Result<R>) {
    LARGEST.store(0, Ordering::Relaxed);
    ARMED.store(true, Ordering::Relaxed);
    let r = std::panic::catch_unwind(std::panic::AssertUnwindSafe(f));
    ARMED.store(false, Ordering::Relaxed);
    (LARGEST.load(Ordering::Relaxed), r)
}

fn hostile_inputs() -> Vec<(String, Vec<u8>)> {
    let mut v = vec![];
    for (nm, len) in [("2^31-1", 0x7fff_ffffu32), ("2^32-1", 0xffff_ffff), ("2^28", 0x1000_0000), ("2^24", 0x0100_0000), ("3MiB", 3 * 1024 * 1024)] {
        // the length prefix first; then a few plausible bytes
        let mut b = len.to_be_bytes().to_vec();
        b.extend_from_slice(&[1, 2, 3]);
        v.push((format!("prefix-{nm}"), b));
        // an Option / bool tag or a u8 field before the length prefix
        for lead in [1usize, 4, 32, 36, 100] {
            let mut c = vec![1u8; lead];
            c.extend_from_slice(&len.to_be_bytes());
            c.extend_from_slice(&[0; 8]);
            v.push((format!("lead{lead}-prefix-{nm}"), c));
        }
    }
    v
}

type Dec = fn(&[u8]) -> bool;
fn dec<T: Streamable>(b: &[u8]) -> bool { T::from_bytes(b).is_ok() | T::from_bytes_unchecked(b).is_ok() }

macro_rules! rt_types {
    ($($t:ident),* $(,)?) => {
        fn protocol_decoders() -> Vec<(&'static str, Dec)> { vec![$((stringify!($t), dec::<chia_protocol::$t> as Dec)),*] }
    };
}
include!(concat!(env!("OUT_DIR"), "/streamable_types.rs"));

fn decoders() -> Vec<(&'static str, Dec)> {
    let mut v: Vec<(&'static str, Dec)> = vec![
        ("Bytes", dec::<chia_protocol::Bytes> as Dec), ("Program", dec::<chia_protocol::Program>), ("String", dec::<String>),
        ("Vec<u8>", dec::<Vec<u8>>), ("Vec<u64>", dec::<Vec<u64>>), ("Vec<Bytes32>", dec::<Vec<chia_protocol::Bytes32>>), ("Vec<Vec<u8>>", dec::<Vec<Vec<u8>>>),
        ("Option<Bytes>", dec::<Option<chia_protocol::Bytes>>), ("Vec<(Bytes32, Option<Bytes>)>", dec::<Vec<(chia_protocol::Bytes32, Option<chia_protocol::Bytes>)>>),
        ("(u32, Bytes)", dec::<(u32, chia_protocol::Bytes)>), ("Vec<Coin>", dec::<Vec<chia_protocol::Coin>>),
    ];
    v.extend(protocol_decoders());
    v
}

/// what a decoder may request up front: the 2 MiB cap, with slack for bookkeeping
const LIMIT: usize = 2 * 1024 * 1024 + 64 * 1024;

/// child mode: one decoder over all hostile inputs, one line per input; an allocation request above 1 GiB is refused, which
/// aborts the process - the parent reads that as the violation it is
pub fn alloc_child(tname: &str) {
    use std::io::Write;
    for (name, d) in decoders() {
        if name != tname { continue; }
        for (iname, b) in hostile_inputs() {
            println!("BEGIN {iname}");
            let _ = std::io::stdout().flush();
            let (largest, r) = watch(|| d(&b));
            println!("DONE {iname} {largest} {}", r.is_err());
            let _ = std::io::stdout().flush();
        }
    }
}

pub fn alloc_ground() -> EvalResult {
    let mut res = EvalResult { obligations: 0, discharged: 0, failures: vec![], samples: vec![], exhaustive: true };
    let inputs = hostile_inputs();
    let decs = decoders();
    let exe = std::env::current_exe().expect("exe");
    let handles: Vec<_> = decs.iter().map(|(tname, _)| {
        let exe = exe.clone(); let tname = tname.to_string();
        std::thread::spawn(move || {
            let out = std::process::Command::new(exe).args(["alloc-child", &tname]).output();
            (tname, out)
        })
    }).collect();
    for h in handles {
        let Ok((tname, out)) = h.join() else { continue; };
        let (stdout, stderr) = match out { Ok(o) => (String::from_utf8_lossy(&o.stdout).to_string(), String::from_utf8_lossy(&o.stderr).to_string()), Err(e) => (String::new(), format!("{e}")) };
        let mut done: std::collections::HashMap<String, (usize, bool)> = std::collections::HashMap::new();
        let mut begun: Vec<String> = vec![];
        for ln in stdout.lines() {
            let w: Vec<&str> = ln.split_whitespace().collect();
            if w.len() == 2 && w[0] == "BEGIN" { begun.push(w[1].to_string()); }
            if w.len() == 4 && w[0] == "DONE" { done.insert(w[1].to_string(), (w[2].parse().unwrap_or(usize::MAX), w[3] == "true")); }
        }
        for (iname, b) in &inputs {
            res.obligations += 1;
            let verdict: Result<(), String> = match done.get(iname) {
                Some((largest, panicked)) => if *panicked { Err("panicked".into()) } else if *largest > LIMIT + b.len() { Err(format!("asked the allocator for {largest} bytes in one request (cap: 2 MiB)")) } else { Ok(()) },
                None => if begun.last() == Some(iname) {
                    Err(format!("the process died while decoding: {}", stderr.lines().find(|l| l.contains("memory allocation")).unwrap_or("aborted")))
                } else { Err("not reached: the decoder process died on an earlier input".into()) },
            };
            match verdict {
                Ok(()) => res.discharged += 1,
                Err(m) => if res.failures.len() < 8 && !m.starts_with("not reached") {
                    res.failures.push(json!({"id": format!("alloc_ground/{tname}/{iname}"), "function": format!("<{tname} as Streamable>::parse"),
                        "message": format!("{tname} on the {}-byte input {iname} (hex {}): {m}", b.len(), hex::encode(b)),
                        "clause": "decoding allocates memory in proportion to the input: at most the 2 MiB pre-allocation cap up front",
                        "cex": {"unit": "eval", "function": "alloc_ground", "input": {"type": tname, "input": iname}}}));
                },
            }
        }
    }
    res.samples.push(json!({"obligation": format!("{} ground obligations: {} decoders (every declared #[streamable] type and length-prefixed core types, both decoders) x {} hostile length prefixes; largest single allocation request observed with a counting global allocator (requests above 1 GiB refused)", res.obligations, decs.len(), inputs.len()), "backend": "native-eval"}));
    res
}

pub fn replay_alloc(input: &Value) -> (bool, String) {
    let t = input["type"].as_str().unwrap_or(""); let i = input["input"].as_str().unwrap_or("");
    let r = alloc_ground();
    for f in &r.failures {
        if f["cex"]["input"]["type"].as_str() == Some(t) && f["cex"]["input"]["input"].as_str() == Some(i) { return (true, f["message"].as_str().unwrap_or("").to_string()); }
    }
    (false, format!("{t} on {i}: within the cap"))
}
