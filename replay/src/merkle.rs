//! Ground obligations for C12 (proofs): for fixed leaf sets (shared prefixes of 0..255 bits, sizes 0..9, duplicates) the
//! tree built by MerkleSet::from_leafs has the root compute_merkle_set_root computes; every member has a proof that
//! validates as included and every probed non-member one that validates as excluded (completeness); and no single-place
//! corruption of a proof (a flipped bit in a hash, a changed node tag, a dropped or appended byte, swapped siblings) makes
//! validate_merkle_proof answer the opposite of the truth for the root it was issued for (soundness probes).
use chia_consensus::merkle_set::compute_merkle_set_root;
use chia_consensus::merkle_tree::{validate_merkle_proof, MerkleSet};
use serde_json::{json, Value};

use crate::eval::EvalResult;

fn leaf(prefix_bits: usize, tail: u8, base: u8) -> [u8; 32] {
    // first `prefix_bits` bits taken from a fixed pattern (base), the rest filled with `tail`
    let mut v = [tail; 32];
    for i in 0..prefix_bits {
        let bit = (base.rotate_left((i % 8) as u32) & 0x80) != 0;
        let m = 0x80u8 >> (i % 8);
        if bit { v[i / 8] |= m } else { v[i / 8] &= !m }
    }
    v
}

pub fn sets(thorough: bool) -> Vec<(String, Vec<[u8; 32]>)> {
    let mut out: Vec<(String, Vec<[u8; 32]>)> = vec![("empty".into(), vec![]), ("single".into(), vec![[7; 32]])];
    for p in [0usize, 1, 7, 8, 9, 100, 254, 255] {
        // two leaves that agree on the first p bits and differ at bit p
        let mut a = leaf(p, 0x00, 0xa5);
        let mut b = a;
        a[p / 8] &= !(0x80 >> (p % 8));
        b[p / 8] |= 0x80 >> (p % 8);
        out.push((format!("pair-split-at-{p}"), vec![a, b]));
        out.push((format!("triple-split-at-{p}"), vec![a, b, [0xff; 32]]));
    }
    out.push(("nine-spread".into(), (0..9u8).map(|i| [i.wrapping_mul(29); 32]).collect()));
    out.push(("duplicates".into(), vec![[1; 32], [2; 32], [1; 32], [2; 32], [3; 32]]));
    out.push(("dense-low-bits".into(), (0..8u8).map(|i| { let mut v = [0u8; 32]; v[31] = i; v }).collect()));
    // the comb: the all-zero leaf and, for every bit, the leaf with only that bit set - the deepest path there is (256 levels)
    // with a hash-bearing sibling on every level, i.e. the largest proofs an honest tree can issue (8 737 bytes)
    out.push(("comb-256".into(), std::iter::once([0u8; 32]).chain((0..256usize).map(|i| { let mut v = [0u8; 32]; v[i / 8] |= 0x80 >> (i % 8); v })).collect()));
    // and its mirror image (all ones, one bit cleared)
    out.push(("comb-256-ones".into(), std::iter::once([0xffu8; 32]).chain((0..256usize).map(|i| { let mut v = [0xffu8; 32]; v[i / 8] &= !(0x80 >> (i % 8)); v })).collect()));
    if thorough {
        // seeded random sets: sizes 2..40, leaves drawn with random shared prefixes
        let mut rng = crate::rng::Rng::new(0xc12_5eed);
        for k in 0..60 {
            let n = 2 + (rng.next() % 39) as usize;
            let mut v = vec![];
            let base = [(rng.next() & 0xff) as u8; 32];
            for _ in 0..n {
                let mut l = base;
                let keep = (rng.next() % 257) as usize;          // bits kept from the base
                for i in keep..256 { if rng.next() & 1 == 1 { l[i / 8] ^= 0x80 >> (i % 8); } }
                v.push(l);
            }
            out.push((format!("random-{k}"), v));
        }
    }
    out
}

fn truth(set: &[[u8; 32]], item: &[u8; 32]) -> bool { set.contains(item) }

/// proof format: 0 | 1 hash | 3 hash | 2 left right
#[derive(Clone)]
enum P { Empty, Term([u8; 32]), Trunc([u8; 32]), Mid(Box<P>, Box<P>) }
fn parse_at(b: &[u8], pos: &mut usize, depth: usize) -> Option<P> {
    if depth > 300 || *pos >= b.len() { return None; }
    let t = b[*pos]; *pos += 1;
    match t {
        0 => Some(P::Empty),
        1 | 3 => { if *pos + 32 > b.len() { return None; } let mut h = [0u8; 32]; h.copy_from_slice(&b[*pos..*pos + 32]); *pos += 32; Some(if t == 1 { P::Term(h) } else { P::Trunc(h) }) }
        2 => { let l = parse_at(b, pos, depth + 1)?; let r = parse_at(b, pos, depth + 1)?; Some(P::Mid(Box::new(l), Box::new(r))) }
        _ => None,
    }
}
fn parse(b: &[u8]) -> Option<P> { let mut pos = 0; let t = parse_at(b, &mut pos, 0)?; if pos == b.len() { Some(t) } else { None } }
fn ser(t: &P, out: &mut Vec<u8>) {
    match t {
        P::Empty => out.push(0),
        P::Term(h) => { out.push(1); out.extend_from_slice(h); }
        P::Trunc(h) => { out.push(3); out.extend_from_slice(h); }
        P::Mid(l, r) => { out.push(2); ser(l, out); ser(r, out); }
    }
}
/// every tree obtained by swapping the children of one Mid node that has exactly one Empty child
fn swap_empty_sides(t: &P) -> Vec<P> {
    let mut out = vec![];
    if let P::Mid(l, r) = t {
        let le = matches!(**l, P::Empty); let re = matches!(**r, P::Empty);
        if le != re { out.push(P::Mid(r.clone(), l.clone())); }
        for v in swap_empty_sides(l) { out.push(P::Mid(Box::new(v), r.clone())); }
        for v in swap_empty_sides(r) { out.push(P::Mid(l.clone(), Box::new(v))); }
    }
    out
}

pub fn check_set(name: &str, leafs: &[[u8; 32]]) -> (u64, Vec<(String, String)>) {
    let mut n = 0u64;
    let mut fails = vec![];
    let mut l1 = leafs.to_vec();
    let mut l2 = leafs.to_vec();
    l2.reverse();
    let root = compute_merkle_set_root(&mut l1);
    n += 1;
    let mut l3 = leafs.to_vec();
    let tree = MerkleSet::from_leafs(&mut l3);
    if tree.get_root() != root { fails.push((format!("{name}/roots-agree"), "MerkleSet::from_leafs(..).get_root() differs from compute_merkle_set_root".into())); }
    n += 1;
    if compute_merkle_set_root(&mut l2) != root { fails.push((format!("{name}/order"), "root depends on the order of the leaves".into())); }
    // items to prove: every member, plus non-members near the members (one bit flipped at several positions) and far ones
    // (of a large set only some members are proved: the first, the deepest ones and a spread)
    let mut items: Vec<[u8; 32]> = if leafs.len() > 64 { let n = leafs.len(); [0, 1, 2, n / 2, n - 3, n - 2, n - 1].iter().map(|i| leafs[*i]).collect() } else { leafs.to_vec() };
    for m in leafs.iter().take(3) {
        for bit in [0usize, 7, 8, 100, 255] {
            let mut v = *m; v[bit / 8] ^= 0x80 >> (bit % 8);
            if !leafs.contains(&v) { items.push(v); }
        }
    }
    items.push([0x33; 32]); items.push([0; 32]); items.push([0xff; 32]);
    for (k, item) in items.iter().enumerate() {
        let want = truth(leafs, item);
        n += 1;
        let (incl, proof) = match tree.generate_proof(item) { Ok(x) => x, Err(_) => { fails.push((format!("{name}/item{k}/generate"), "generate_proof fails on a tree built from leaves".into())); continue; } };
        if incl != want { fails.push((format!("{name}/item{k}/generate"), format!("generate_proof says included={incl}, truth {want}"))); continue; }
        match validate_merkle_proof(&proof, item, &root) {
            Ok(v) if v == want => {}
            other => { fails.push((format!("{name}/item{k}/validate"), format!("the generated proof validates as {:?}, truth {want}", other.map_err(|_| "Err")))); continue; }
        }
        // soundness probes: single-place corruptions must never flip the verdict for this root
        let mut probes: Vec<(String, Vec<u8>)> = vec![];
        let stride = if proof.len() > 2000 { 61 } else { 1 };
        for pos in (0..proof.len()).step_by(stride) {
            let mut p = proof.clone(); p[pos] ^= 0x01; probes.push((format!("flip-low-bit@{pos}"), p));
            if proof.len() <= 200 { let mut p = proof.clone(); p[pos] ^= 0x80; probes.push((format!("flip-high-bit@{pos}"), p)); }
        }
        let mut p = proof.clone(); p.push(0); probes.push(("append-zero".into(), p));
        let mut p = proof.clone(); p.push(1); p.extend_from_slice(item); probes.push(("append-terminal-item".into(), p));
        if !proof.is_empty() { let mut p = proof.clone(); p.pop(); probes.push(("drop-last".into(), p)); }
        // adversarial, root-preserving probes
        // (1) a proof issued for another item: same tree, but the sub-tree on this item's path may be truncated
        for (j, other) in items.iter().enumerate() {
            if j == k { continue; }
            if let Ok((_, p)) = tree.generate_proof(other) { probes.push((format!("proof-of-item{j}"), p)); }
        }
        // (2) an empty sibling moved to the other side of its parent: the collapsed hash (hence the root) is unchanged,
        //     but the leaves below are no longer where their bits say
        if let Some(t) = parse(&proof) {
            let mut count = 0;
            for variant in swap_empty_sides(&t) {
                let mut out = vec![]; ser(&variant, &mut out);
                probes.push((format!("empty-sibling-swapped#{count}"), out));
                count += 1;
            }
        }
        // (3) proofs that smuggle the root itself in as a leaf or a truncated sub-tree, alone or below one-sided levels: a
        //     leaf's bytes are never a node hash, and a wholly truncated tree says nothing about the item
        {
            let e = || Box::new(P::Empty);
            let forms: Vec<(&str, P)> = vec![
                ("root-as-leaf", P::Term(root)), ("root-truncated", P::Trunc(root)),
                ("root-as-leaf-right-of-empty", P::Mid(e(), Box::new(P::Term(root)))), ("root-as-leaf-left-of-empty", P::Mid(Box::new(P::Term(root)), e())),
                ("root-truncated-right-of-empty", P::Mid(e(), Box::new(P::Trunc(root)))), ("root-truncated-left-of-empty", P::Mid(Box::new(P::Trunc(root)), e())),
                ("root-as-leaf-two-levels-right", P::Mid(e(), Box::new(P::Mid(e(), Box::new(P::Term(root)))))),
                ("root-as-leaf-two-levels-left", P::Mid(Box::new(P::Mid(Box::new(P::Term(root)), e())), e())),
                ("root-as-leaf-right-then-left", P::Mid(e(), Box::new(P::Mid(Box::new(P::Term(root)), e())))),
                ("root-as-leaf-left-then-right", P::Mid(Box::new(P::Mid(e(), Box::new(P::Term(root)))), e())),
            ];
            for (fname, f) in forms { let mut out = vec![]; ser(&f, &mut out); probes.push((fname.to_string(), out)); }
        }
        for (pname, p) in probes {
            n += 1;
            if let Ok(v) = validate_merkle_proof(&p, item, &root) {
                if v != want { fails.push((format!("{name}/item{k}/probe-{pname}"), format!("a corrupted proof ({pname}) validates as {v} against the genuine root, truth {want}"))); }
            }
        }
    }
    (n, fails)
}

pub fn merkle_ground(thorough: bool) -> EvalResult {
    let mut res = EvalResult { obligations: 0, discharged: 0, failures: vec![], samples: vec![], exhaustive: true };
    let handles: Vec<_> = sets(thorough).into_iter().map(|(name, l)| std::thread::spawn(move || check_set(&name, &l))).collect();
    for h in handles {
        let (n, fails) = h.join().unwrap_or((0, vec![]));
        res.obligations += n;
        res.discharged += n - (fails.len() as u64).min(n);
        for (id, m) in fails {
            if res.failures.len() < 6 {
                let set = id.split('/').next().unwrap_or("").to_string();
                res.failures.push(json!({"id": format!("merkle_ground/{id}"), "function": "MerkleSet / validate_merkle_proof", "message": format!("{id}: {m}"),
                    "clause": "roots agree, proofs complete, corrupted proofs never flip the verdict",
                    "cex": {"unit": "eval", "function": "merkle_ground", "input": {"set": set, "id": id}}}));
            }
        }
    }
    res.samples.push(json!({"obligation": format!("{} ground obligations over {} leaf sets (splits at bits 0..255, duplicates, dense low bits): root agreement, proof completeness, single-place proof corruptions", res.obligations, sets(thorough).len()), "backend": "native-eval"}));
    res
}

pub fn replay_merkle(input: &Value) -> (bool, String) {
    let set = input["set"].as_str().unwrap_or("");
    let id = input["id"].as_str().unwrap_or("");
    for (name, l) in sets(true) {
        if name == set {
            let (_, fails) = check_set(&name, &l);
            for (fid, m) in fails { if fid == id { return (true, format!("{fid}: {m}")); } }
            return (false, format!("set {set}: holds"));
        }
    }
    (false, "unknown set".into())
}
