//! Native side-car: links the real chia_rs crates by path.
//!   verif-replay search <unit> <function> <seed> <budget_s>   -> prints "CEX <json>" on a disagreement
//!   verif-replay replay <json>                                  -> exit 1 if the disagreement reproduces
//!   verif-replay eval <task>                                    -> prints "RESULT <json>" (native-eval ground obligations)
use serde_json::{json, Value};
use std::time::{Duration, Instant};

mod eval;
mod relations;
mod builders;
mod paths;
mod merkle;
mod roundtrip;
mod dedup;
mod ints;
mod ff;
mod alloc_watch;

#[global_allocator]
static GLOBAL: alloc_watch::Watch = alloc_watch::Watch;
mod rng;
mod t_time_locks;
mod t_tree_hash;
mod t_merkle_set;
mod t_int_encoders;

pub struct Budget {
    pub deadline: Instant,
}
impl Budget {
    pub fn left(&self) -> bool {
        Instant::now() < self.deadline
    }
}

/// A target = executable twin of a Verus spec function + input generator + comparison with the real fn.
pub trait Target {
    /// try to find an input on which real code and spec disagree
    fn search(&self, function: &str, seed: u64, budget: &Budget) -> Option<Value>;
    /// re-execute; Ok(true) = disagreement reproduces
    fn replay(&self, input: &Value) -> Result<(bool, String), String>;
}

fn target(unit: &str) -> Option<Box<dyn Target>> {
    match unit {
        "time_locks" => Some(Box::new(t_time_locks::T)),
        "int_encoders" => Some(Box::new(t_int_encoders::T)),
        "merkle_set" => Some(Box::new(t_merkle_set::T)),
        "tree_hash" => Some(Box::new(t_tree_hash::T)),
        _ => None,
    }
}

fn main() {
    let args: Vec<String> = std::env::args().collect();
    if args.len() < 2 {
        eprintln!("usage: search|replay|eval");
        std::process::exit(2);
    }
    match args[1].as_str() {
        "alloc-child" => alloc_watch::alloc_child(&args[2]),
        "search" => {
            let unit = &args[2];
            let function = &args[3];
            let seed: u64 = args[4].parse().unwrap_or(1);
            let budget: u64 = args[5].parse().unwrap_or(5);
            let b = Budget { deadline: Instant::now() + Duration::from_secs(budget) };
            if let Some(t) = target(unit) {
                if let Some(cex) = t.search(function, seed, &b) {
                    println!("CEX {}", json!({"unit": unit, "function": function, "input": cex}));
                    return;
                }
                println!("NONE searched");
            } else {
                println!("NONE no-searcher-for-unit");
            }
        }
        "replay" => {
            let v: Value = serde_json::from_str(&args[2]).expect("json");
            let unit = v["unit"].as_str().unwrap_or("");
            if unit == "eval" {
                let (bad, msg) = match v["function"].as_str().unwrap_or("") {
                    "cost_table" => eval::replay_cost(&v["input"]),
                    "trusted_paths_ground" => eval::replay_trusted(&v["input"]),
                    "pos_v2_hash" => eval::replay_pos(&v["input"]),
                    "datalayer_ground" => eval::replay_datalayer(&v["input"]),
                    "datalayer_histories" => eval::replay_histories(&v["input"]),
                    "sig_paths_ground" => eval::replay_sig_paths(&v["input"]),
                    "relations_ground" => relations::replay_relations(&v["input"]),
                    "builders_ground" => builders::replay_builders(&v["input"]),
                    "paths_ground" => paths::replay_paths(&v["input"]),
                    "merkle_ground" => merkle::replay_merkle(&v["input"]),
                    "roundtrip_ground" => roundtrip::replay_roundtrip(&v["input"]),
                    "curry_ground" => t_tree_hash::replay_curry(&v["input"]),
                    "dedup_ground" => dedup::replay_dedup(&v["input"]),
                    "alloc_ground" => alloc_watch::replay_alloc(&v["input"]),
                    "ff_ground" => ff::replay_ff(&v["input"]),
                    "ints_ground" => ints::replay_ints(&v["input"]),
                    "bls_cache_ground" => eval::replay_bls(&v["input"]),
                    "tree_hash_precomputed" => eval::replay_precomputed(&v["input"]),
                    _ => (false, "unknown eval replay".to_string()),
                };
                println!("{} {msg}", if bad { "DISAGREE" } else { "AGREE" });
                std::process::exit(if bad { 1 } else { 0 });
            }
            match target(unit) {
                Some(t) => match t.replay(&v["input"]) {
                    Ok((true, msg)) => {
                        println!("DISAGREE {msg}");
                        std::process::exit(1);
                    }
                    Ok((false, msg)) => {
                        println!("AGREE {msg}");
                    }
                    Err(e) => {
                        eprintln!("replay error: {e}");
                        std::process::exit(2);
                    }
                },
                None => {
                    eprintln!("no target {unit}");
                    std::process::exit(2);
                }
            }
        }
        "eval" => match eval::run(&args[2]) {
            Some(r) => {
                println!("RESULT {}", json!({"obligations": r.obligations, "discharged": r.discharged,
                    "failures": r.failures, "samples": r.samples, "exhaustive": r.exhaustive}));
            }
            None => {
                eprintln!("no eval task {}", args[2]);
                std::process::exit(2);
            }
        },
        _ => std::process::exit(2),
    }
}
