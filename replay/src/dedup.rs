//! C19 ground side (mempool eligibility flags and dedup fingerprints), through run_spendbundle with the mempool flag set
//! and COMPUTE_FINGERPRINT: a spend may be flagged dedup-eligible only if it emits no signature and no message condition
//! and creates at least as much value as it consumes; plain spends that qualify are flagged; two dedup-eligible spends
//! of the same coin whose condition lists differ have different fingerprints, identical lists have the same.
use crate::eval::EvalResult;
use chia_bls::Signature;
use chia_consensus::allocator::make_allocator;
use chia_consensus::conditions::ELIGIBLE_FOR_DEDUP;
use chia_consensus::consensus_constants::TEST_CONSTANTS;
use chia_consensus::flags::{ConsensusFlags, MEMPOOL_MODE};
use chia_consensus::spendbundle_conditions::run_spendbundle;
use chia_protocol::{Coin, CoinSpend, Program, SpendBundle};
use serde_json::{json, Value};

fn atom(b: &[u8]) -> Vec<u8> {
    if b.is_empty() { return vec![0x80]; }
    if b.len() == 1 && b[0] < 0x80 { return vec![b[0]]; }
    let mut v = if b.len() < 0x40 { vec![0x80 | b.len() as u8] } else { vec![0xc0 | (b.len() >> 8) as u8, b.len() as u8] };
    v.extend_from_slice(b);
    v
}
fn cond(items: &[Vec<u8>]) -> Vec<u8> { let mut v = vec![0xff]; for (i, it) in items.iter().enumerate() { if i > 0 { v.push(0xff); } v.extend(atom(it)); } v.push(0x80); v }
fn list(conds: &[Vec<u8>]) -> Vec<u8> { let mut v = vec![]; for c in conds { v.push(0xff); v.extend_from_slice(c); } v.push(0x80); v }

/// spends of the identity puzzle (coin i: parent [i+1; 32], amount 1000) with the given condition lists; per spend (flags, fingerprint)
fn run_many(spends: &[Vec<Vec<u8>>]) -> Result<Vec<(u32, [u8; 32])>, String> {
    let puzzle = [1u8];
    let ph = clvm_utils::tree_hash_atom(&puzzle).to_bytes();
    let css: Vec<CoinSpend> = spends.iter().enumerate().map(|(i, conds)|
        CoinSpend::new(Coin::new([i as u8 + 1; 32].into(), ph.into(), 1000), Program::new(puzzle.as_slice().into()), list(conds).into())).collect();
    let ids: Vec<[u8; 32]> = css.iter().map(|c| c.coin.coin_id().into()).collect();
    let b = SpendBundle::new(css, Signature::default());
    let mut a = make_allocator(ConsensusFlags::LIMIT_HEAP);
    let flags = MEMPOOL_MODE | ConsensusFlags::DONT_VALIDATE_SIGNATURE | ConsensusFlags::COMPUTE_FINGERPRINT;
    match run_spendbundle(&mut a, &b, TEST_CONSTANTS.max_block_cost_clvm, flags, &TEST_CONSTANTS) {
        Ok((c, _)) => Ok(ids.iter().map(|id| { let s = c.spends.iter().find(|s| s.coin_id.as_ref().as_ref() == &id[..]).expect("spend"); (s.flags, s.fingerprint) }).collect()),
        Err(e) => Err(format!("{e:?}")),
    }
}
fn run(conds: &[Vec<u8>]) -> Result<(u32, [u8; 32]), String> { run_many(&[conds.to_vec()]).map(|v| v[0]) }

pub fn cases() -> Vec<(String, Vec<Vec<u8>>, Option<bool>)> {
    // (name, condition list, Some(expected dedup flag) / None = only the "only if" direction is demanded)
    let ph = clvm_utils::tree_hash_atom(&[1u8]).to_bytes().to_vec();
    let pk = chia_bls::SecretKey::from_seed(&[9; 32]).public_key().to_bytes().to_vec();
    let full = cond(&[vec![51], vec![9u8; 32], vec![0x03, 0xe8]]);       // creates 1000 == the coin's amount
    let short = cond(&[vec![51], vec![9u8; 32], vec![0x03, 0xe7]]);      // creates 999
    let mut v: Vec<(String, Vec<Vec<u8>>, Option<bool>)> = vec![];
    v.push(("plain-full-value".into(), vec![full.clone()], Some(true)));
    v.push(("plain-excess-value".into(), vec![short.clone()], Some(false)));
    v.push(("no-conditions".into(), vec![], Some(false)));
    // every AGG_SIG flavour clears the flag
    for op in [43u8, 44, 45, 46, 47, 48, 49, 50] {
        v.push((format!("agg-sig-{op}"), vec![full.clone(), cond(&[vec![op], pk.clone(), b"hello".to_vec()])], Some(false)));
        v.push((format!("agg-sig-{op}-first"), vec![cond(&[vec![op], pk.clone(), b"hello".to_vec()]), full.clone()], Some(false)));
    }
    // conditions that leave the flag alone
    for (nm, c) in [("reserve-fee", cond(&[vec![52], vec![]])), ("create-coin-announcement", cond(&[vec![60], b"x".to_vec()])),
                    ("create-puzzle-announcement", cond(&[vec![62], b"x".to_vec()])), ("assert-my-coin-id", cond(&[vec![70], {
                        let c = Coin::new([1; 32].into(), <[u8; 32]>::try_from(ph.as_slice()).unwrap().into(), 1000); c.coin_id().to_vec() }])),
                    ("assert-my-amount", cond(&[vec![73], vec![0x03, 0xe8]])), ("assert-my-puzzlehash", cond(&[vec![72], ph.clone()])),
                    ("assert-seconds-absolute", cond(&[vec![81], vec![5]])), ("assert-height-absolute", cond(&[vec![83], vec![5]])),
                    ("assert-before-seconds-absolute", cond(&[vec![85], vec![0x7f, 0xff, 0xff, 0xff]])), ("remark", cond(&[vec![1]]))] {
        v.push((format!("plain-with-{nm}"), vec![full.clone(), c.clone()], Some(true)));
        v.push((format!("excess-with-{nm}"), vec![short.clone(), c], Some(false)));
    }
    v
}

/// messages between two coins, every sender / receiver mode: neither the sender nor the receiver stays dedup-eligible
fn message_cases() -> Vec<(String, Vec<Vec<Vec<u8>>>)> {
    let ph = clvm_utils::tree_hash_atom(&[1u8]).to_bytes();
    let full = cond(&[vec![51], vec![9u8; 32], vec![0x03, 0xe8]]);
    let mut v = vec![];
    for mode in 0u8..64 {
        let src = mode >> 3; let dst = mode & 7;
        if src == 0 || dst == 0 { continue; } // a side that commits to nothing is refused in mempool mode
        // coin 0 (parent [1; 32]) sends, coin 1 (parent [2; 32]) receives
        let commit = |m: u8, parent: u8| -> Vec<Vec<u8>> {
            if m == 7 { return vec![Coin::new([parent; 32].into(), ph.into(), 1000).coin_id().to_vec()]; }
            let mut args = vec![];
            if m & 4 != 0 { args.push(vec![parent; 32]); }
            if m & 2 != 0 { args.push(ph.to_vec()); }
            if m & 1 != 0 { args.push(vec![0x03, 0xe8]); }
            args
        };
        let mut send = vec![vec![66u8], vec![mode], b"hi".to_vec()]; send.extend(commit(dst, 2));
        let mut recv = vec![vec![67u8], vec![mode], b"hi".to_vec()]; recv.extend(commit(src, 1));
        v.push((format!("message-mode-{mode}"), vec![vec![full.clone(), cond(&send)], vec![full.clone(), cond(&recv)]]));
    }
    v
}


/// fast-forward eligibility (ELIGIBLE_FOR_FF) across spends: a spend of an odd-amount coin that re-creates (its puzzle hash,
/// its amount) keeps the flag unless one of its outputs is spent in the same bundle or another spend asserts it concurrently -
/// whatever the order of the spends and whatever other spends sit in between
fn ff_flag_cases() -> Vec<(String, Vec<(Vec<u8>, u64, Vec<Vec<u8>>)>, Vec<(usize, bool)>)> {
    // (name, spends as (parent id, amount, conditions), expectations as (spend index, FF flag expected))
    let ph = clvm_utils::tree_hash_atom(&[1u8]).to_bytes();
    let recreate = |amount: u64| cond(&[vec![51], ph.to_vec(), { let b = amount.to_be_bytes(); let mut i = 0; while b[i] == 0 { i += 1; } let mut o = vec![]; if b[i] & 0x80 != 0 { o.push(0); } o.extend_from_slice(&b[i..]); o }]);
    let parent = |p: u8| vec![p; 32];
    let singleton = (parent(1), 1001u64, vec![recreate(1001)]);
    let child_parent = Coin::new([1; 32].into(), ph.into(), 1001).coin_id().to_vec();
    let child = (child_parent.clone(), 1001u64, vec![recreate(1001)]);
    let plain = (parent(9), 1000u64, vec![cond(&[vec![51], vec![9u8; 32], vec![0x03, 0xe8]])]);
    let plain2 = (parent(8), 1000u64, vec![cond(&[vec![51], vec![8u8; 32], vec![0x03, 0xe8]])]);
    let asserting = (parent(7), 1000u64, vec![cond(&[vec![51], vec![7u8; 32], vec![0x03, 0xe8]]), cond(&[vec![64], Coin::new([1; 32].into(), ph.into(), 1001).coin_id().to_vec()])]);
    let mut v = vec![];
    v.push(("ff/alone".to_string(), vec![singleton.clone()], vec![(0, true)]));
    v.push(("ff/with-unrelated".to_string(), vec![plain.clone(), singleton.clone()], vec![(0, false), (1, true)]));
    v.push(("ff/unrelated-after".to_string(), vec![singleton.clone(), plain.clone()], vec![(0, true), (1, false)]));
    // its output is spent in the same bundle: the parent is not eligible; the last of the chain is
    v.push(("ff/parent-child".to_string(), vec![singleton.clone(), child.clone()], vec![(0, false), (1, true)]));
    v.push(("ff/child-parent".to_string(), vec![child.clone(), singleton.clone()], vec![(0, true), (1, false)]));
    v.push(("ff/unrelated-parent-child".to_string(), vec![plain.clone(), singleton.clone(), child.clone()], vec![(0, false), (1, false), (2, true)]));
    v.push(("ff/unrelated-child-parent".to_string(), vec![plain.clone(), child.clone(), singleton.clone()], vec![(0, false), (1, true), (2, false)]));
    v.push(("ff/parent-unrelated-child".to_string(), vec![singleton.clone(), plain.clone(), child.clone()], vec![(0, false), (1, false), (2, true)]));
    v.push(("ff/two-unrelated-parent-child".to_string(), vec![plain.clone(), plain2.clone(), singleton.clone(), child.clone()], vec![(2, false), (3, true)]));
    // asserted concurrently by another spend
    v.push(("ff/asserted-concurrently".to_string(), vec![singleton.clone(), asserting.clone()], vec![(0, false)]));
    v.push(("ff/asserted-concurrently-first".to_string(), vec![asserting.clone(), singleton.clone()], vec![(1, false)]));
    v.push(("ff/unrelated-asserted-concurrently".to_string(), vec![plain.clone(), asserting, singleton], vec![(2, false)]));
    v
}

fn run_coins(spends: &[(Vec<u8>, u64, Vec<Vec<u8>>)]) -> Result<Vec<u32>, String> {
    let puzzle = [1u8];
    let ph = clvm_utils::tree_hash_atom(&puzzle).to_bytes();
    let css: Vec<CoinSpend> = spends.iter().map(|(par, am, conds)|
        CoinSpend::new(Coin::new(<[u8; 32]>::try_from(par.as_slice()).unwrap().into(), ph.into(), *am), Program::new(puzzle.as_slice().into()), list(conds).into())).collect();
    let ids: Vec<[u8; 32]> = css.iter().map(|c| c.coin.coin_id().into()).collect();
    let b = SpendBundle::new(css, Signature::default());
    let mut a = make_allocator(ConsensusFlags::LIMIT_HEAP);
    let flags = MEMPOOL_MODE | ConsensusFlags::DONT_VALIDATE_SIGNATURE;
    match run_spendbundle(&mut a, &b, TEST_CONSTANTS.max_block_cost_clvm, flags, &TEST_CONSTANTS) {
        Ok((c, _)) => Ok(ids.iter().map(|id| c.spends.iter().find(|s| s.coin_id.as_ref().as_ref() == &id[..]).expect("spend").flags).collect()),
        Err(e) => Err(format!("{e:?}")),
    }
}

pub fn dedup_ground() -> EvalResult {
    let mut res = EvalResult { obligations: 0, discharged: 0, failures: vec![], samples: vec![], exhaustive: true };
    let mut fail = |res: &mut EvalResult, id: String, msg: String| {
        if res.failures.len() < 8 {
            res.failures.push(json!({"id": format!("dedup_ground/{id}"), "function": "MempoolVisitor / compute_puzzle_fingerprint", "message": msg,
                "clause": "dedup-eligible only without signature / message conditions and with created value >= consumed; fingerprints separate different condition lists",
                "cex": {"unit": "eval", "function": "dedup_ground", "input": {"id": id}}}));
        }
    };
    let cs = cases();
    let mut eligible: Vec<(String, Vec<Vec<u8>>, [u8; 32])> = vec![];
    for (name, conds, want) in &cs {
        res.obligations += 1;
        match run(conds) {
            Err(e) => fail(&mut res, format!("{name}/accepted"), format!("case {name}: the bundle is rejected ({e}); every case is a valid bundle")),
            Ok((flags, fp)) => {
                let dedup = flags & ELIGIBLE_FOR_DEDUP != 0;
                let has_sig_or_msg = name.starts_with("agg-sig") || name.starts_with("message");
                let excess = name.contains("excess") || name == "no-conditions";
                if dedup && (has_sig_or_msg || excess) {
                    fail(&mut res, format!("{name}/only-if"), format!("case {name}: flagged dedup-eligible although it {}", if has_sig_or_msg { "emits a signature or message condition" } else { "creates less value than it consumes" }));
                } else if Some(dedup) != *want && want.is_some() {
                    fail(&mut res, format!("{name}/flag"), format!("case {name}: dedup flag = {dedup}, the rules say {}", want.unwrap()));
                } else { res.discharged += 1; }
                if dedup { eligible.push((name.clone(), conds.clone(), fp)); }
            }
        }
    }
    for (name, spends) in message_cases() {
        res.obligations += 1;
        match run_many(&spends) {
            Err(e) => fail(&mut res, format!("{name}/accepted"), format!("case {name}: the bundle is rejected ({e}); every case is a valid bundle")),
            Ok(per) => {
                let s = per[0].0 & ELIGIBLE_FOR_DEDUP != 0; let r = per[1].0 & ELIGIBLE_FOR_DEDUP != 0;
                if s || r { fail(&mut res, format!("{name}/only-if"), format!("case {name}: dedup-eligible sender = {s}, receiver = {r}; a spend that emits a message condition is never dedup-eligible")); }
                else { res.discharged += 1; }
            }
        }
    }
    for (name, spends, expect) in ff_flag_cases() {
        res.obligations += 1;
        match run_coins(&spends) {
            Err(e) => fail(&mut res, format!("{name}/accepted"), format!("case {name}: the bundle is rejected ({e}); every case is a valid bundle")),
            Ok(flags) => {
                let bad: Vec<String> = expect.iter().filter(|(i, want)| ((flags[*i] & chia_consensus::conditions::ELIGIBLE_FOR_FF) != 0) != *want)
                    .map(|(i, want)| format!("spend #{i}: flag = {}, the rule says {want}", !*want)).collect();
                if bad.is_empty() { res.discharged += 1; } else { fail(&mut res, format!("{name}/flag"), format!("case {name}: fast-forward eligibility: {}", bad.join("; "))); }
            }
        }
    }
    // the value clause at every magnitude: coins around 2^7 .. 2^63 and at the top of the range, creating exactly their
    // value (one output, or two that add up), one mojo less, or a single mojo
    {
        let canon = |v: u64| -> Vec<u8> { if v == 0 { return vec![]; } let b = v.to_be_bytes(); let mut i = 0; while b[i] == 0 { i += 1; } let mut o = vec![]; if b[i] & 0x80 != 0 { o.push(0); } o.extend_from_slice(&b[i..]); o };
        let out = |ph: u8, v: u64| cond(&[vec![51], vec![ph; 32], canon(v)]);
        for amount in [0x7fu64, 0x80, 0xffff, 0x7fff_ffff, 0x8000_0000, 0xffff_ffff, 0x7fff_ffff_ffff_ffff, 0x8000_0000_0000_0000, 0x8000_0000_0000_0001, u64::MAX - 1, u64::MAX] {
            let shapes: Vec<(&str, Vec<Vec<u8>>, bool)> = vec![
                ("exact", vec![out(9, amount)], true),
                ("split", vec![out(9, amount - 1), out(8, 1)], true),
                ("split-halves", vec![out(9, amount / 2), out(8, amount - amount / 2)], true),
                ("one-less", vec![out(9, amount - 1)], false),
                ("split-one-less", vec![out(9, amount - 2), out(8, 1)], false),
                ("single-mojo", vec![out(9, 1)], amount == 1),
                ("half", vec![out(9, amount / 2)], false),
            ];
            for (shape, conds, want) in shapes {
                res.obligations += 1;
                let id = format!("value-{amount:#x}/{shape}");
                match run_coins(&[(vec![1u8; 32], amount, conds)]) {
                    Err(e) => fail(&mut res, format!("{id}/accepted"), format!("coin of {amount} mojos, outputs {shape}: the bundle is rejected ({e}); it is valid")),
                    Ok(flags) => {
                        let dedup = flags[0] & ELIGIBLE_FOR_DEDUP != 0;
                        if dedup == want { res.discharged += 1; } else { fail(&mut res, format!("{id}/flag"), format!("coin of {amount} mojos, outputs {shape}: dedup flag = {dedup}, the rule (created value >= consumed value, no signature or message) says {want}")); }
                    }
                }
            }
        }
    }
    // fingerprints: identical lists agree, different lists differ (all on the same coin)
    for (i, (n1, c1, f1)) in eligible.iter().enumerate() {
        res.obligations += 1;
        match run(c1) { Ok((_, f)) if f == *f1 && f != [0u8; 32] => res.discharged += 1, _ => fail(&mut res, format!("{n1}/fingerprint-stable"), format!("case {n1}: the fingerprint of the same spend is not reproducible or is all zero")) }
        for (n2, c2, f2) in eligible.iter().skip(i + 1) {
            res.obligations += 1;
            if (c1 == c2) == (f1 == f2) { res.discharged += 1; } else { fail(&mut res, format!("{n1}~{n2}/fingerprint"), format!("cases {n1} and {n2}: condition lists equal = {}, fingerprints equal = {}", c1 == c2, f1 == f2)); }
        }
    }
    // the fingerprint of a spend is a function of that spend alone: next to another spend of the same puzzle (different
    // solution) it is what it is on its own
    {
        let x = vec![cond(&[vec![51], vec![9u8; 32], vec![0x03, 0xe8]])];
        let y = vec![cond(&[vec![51], vec![8u8; 32], vec![0x03, 0xe8]])];
        let z = vec![cond(&[vec![51], vec![7u8; 32], vec![0x03, 0xe8]]), cond(&[vec![60], b"z".to_vec()])];
        for (nm, bundle) in [("xy", vec![x.clone(), y.clone()]), ("yx", vec![y.clone(), x.clone()]), ("xyz", vec![x.clone(), y.clone(), z.clone()]), ("xx", vec![x.clone(), x.clone()])] {
            res.obligations += 1;
            match run_many(&bundle) {
                Err(e) => fail(&mut res, format!("fingerprint-in-bundle-{nm}/accepted"), format!("bundle {nm}: rejected ({e})")),
                Ok(per) => {
                    let mut bad = vec![];
                    for (i, conds) in bundle.iter().enumerate() {
                        // alone, as the coin it is in the bundle (coin i has parent [i + 1; 32])
                        let mut solo: Vec<Vec<Vec<u8>>> = vec![vec![cond(&[vec![51], vec![0x33u8; 32], vec![0x03, 0xe8]])]; i];
                        solo.push(conds.clone());
                        if let Ok(s) = run_many(&solo) { if s[i].1 != per[i].1 { bad.push(i); } }
                    }
                    if bad.is_empty() { res.discharged += 1; } else { fail(&mut res, format!("fingerprint-in-bundle-{nm}/fingerprint"), format!("bundle {nm}: the fingerprint of spend(s) {bad:?} differs from the fingerprint of the same spend in a bundle where its neighbours are other spends")); }
                }
            }
        }
    }
    // small edits of a dedup-eligible list change the fingerprint: another amount split, another hint, another announcement
    {
        let base = vec![cond(&[vec![51], vec![9u8; 32], vec![0x03, 0xe8], vec![]]), cond(&[vec![60], b"x".to_vec()])];
        let variants: Vec<(&str, Vec<Vec<u8>>)> = vec![
            ("other-puzzle-hash", vec![cond(&[vec![51], vec![8u8; 32], vec![0x03, 0xe8], vec![]]), cond(&[vec![60], b"x".to_vec()])]),
            ("other-announcement", vec![cond(&[vec![51], vec![9u8; 32], vec![0x03, 0xe8], vec![]]), cond(&[vec![60], b"y".to_vec()])]),
            ("announcement-kind", vec![cond(&[vec![51], vec![9u8; 32], vec![0x03, 0xe8], vec![]]), cond(&[vec![62], b"x".to_vec()])]),
            ("reordered", vec![cond(&[vec![60], b"x".to_vec()]), cond(&[vec![51], vec![9u8; 32], vec![0x03, 0xe8], vec![]])]),
            ("split-value", vec![cond(&[vec![51], vec![9u8; 32], vec![0x03, 0xe7], vec![]]), cond(&[vec![51], vec![9u8; 32], vec![1], vec![]]), cond(&[vec![60], b"x".to_vec()])]),
        ];
        if let Ok((fl, fb)) = run(&base) {
            for (nm, vc) in variants {
                res.obligations += 1;
                match run(&vc) {
                    Ok((fl2, f2)) if (fl & fl2 & ELIGIBLE_FOR_DEDUP != 0) && f2 != fb => res.discharged += 1,
                    Ok((fl2, f2)) => fail(&mut res, format!("edit-{nm}/fingerprint"), format!("edit {nm}: flags {fl} / {fl2}, fingerprints equal = {}", f2 == fb)),
                    Err(e) => fail(&mut res, format!("edit-{nm}/accepted"), format!("edit {nm}: rejected ({e})")),
                }
            }
        }
    }
    res.samples.push(json!({"obligation": format!("{} ground obligations: {} single-spend bundles (every AGG_SIG flavour, all 64 message modes, plain conditions, excess value) through run_spendbundle with COMPUTE_FINGERPRINT; pairwise fingerprint separation", res.obligations, cs.len()), "backend": "native-eval"}));
    res
}

pub fn replay_dedup(input: &Value) -> (bool, String) {
    let r = dedup_ground();
    let id = input["id"].as_str().unwrap_or("");
    for f in &r.failures { if f["cex"]["input"]["id"].as_str() == Some(id) { return (true, f["message"].as_str().unwrap_or("").to_string()); } }
    (false, format!("{id}: holds"))
}
