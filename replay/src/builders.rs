//! Ground obligations for C10: both block builders driven through fixed histories of add_spend_bundles with declared
//! costs that land on and around the block limit, late rejections (the size only turns out too large after serialising)
//! and signed bundles.  After every step the running estimate stays within the limit and an offer that is refused leaves
//! it unchanged; finalize never panics; the generator it returns passes full validation under the returned signature,
//! spends exactly the coins of the accepted bundles, and costs exactly the returned cost.
use chia_bls::{sign, SecretKey, Signature};
use chia_consensus::build_compressed_block::BlockBuilder;
use chia_consensus::build_interned_block::InternedBlockBuilder;
use chia_consensus::consensus_constants::TEST_CONSTANTS;
use chia_consensus::flags::{ConsensusFlags, MEMPOOL_MODE};
use chia_consensus::run_block_generator::run_block_generator2;
use chia_protocol::{Coin, CoinSpend, Program, SpendBundle};
use serde_json::{json, Value};
use std::panic::{catch_unwind, AssertUnwindSafe};

use crate::eval::EvalResult;

/// a bundle with one spend of puzzle "1" whose solution is one AGG_SIG_UNSAFE condition, signed; `pad` bytes of REMARK
/// payload make the serialised size controllable
fn bundle(tag: u8, pad: usize) -> (SpendBundle, [u8; 32]) {
    // a signed spend whose signature travels in a second bundle that has no spends of its own: 240 is the spend of tag 7
    // under the identity signature, 241 the spend-less bundle that carries tag 7's signature.  Only the two together verify.
    if tag == 240 { let (b, id) = bundle(7, pad); return (SpendBundle::new(b.coin_spends, Signature::default()), id); }
    if tag == 241 { let (b, _) = bundle(7, pad); return (SpendBundle::new(vec![], b.aggregated_signature), [0u8; 32]); }
    // a bundle the builders cannot even parse: its solution (230) resp. its puzzle reveal (231) is a truncated serialisation.
    // An attempt that contains it returns an error - and must leave the builder as it was
    if tag == 230 || tag == 231 {
        let (b, id) = bundle(9, pad);
        let cs = &b.coin_spends[0];
        let broken = if tag == 230 { CoinSpend::new(cs.coin, cs.puzzle_reveal.clone(), vec![0xffu8, 0x01].into()) } else { CoinSpend::new(cs.coin, Program::new(vec![0xffu8].into()), cs.solution.clone()) };
        return (SpendBundle::new(vec![broken], b.aggregated_signature), id);
    }
    if tag >= 200 {
        // a spend that shares no atom with the generator's wrapper or with the other spends except nil: puzzle `2` (the
        // first element of the solution), solution `(())` - no conditions, unsigned
        let puzzle = [2u8];
        let ph = clvm_utils::tree_hash_atom(&puzzle).to_bytes();
        let coin = Coin::new([tag; 32].into(), ph.into(), 1_000 + tag as u64);
        let id: [u8; 32] = coin.coin_id().into();
        return (SpendBundle::new(vec![CoinSpend::new(coin, Program::new(puzzle.as_slice().into()), vec![0xffu8, 0x80, 0x80].into())], Signature::default()), id);
    }
    let sk = SecretKey::from_seed(&[tag; 32]);
    let pk = sk.public_key();
    let msg = [tag, 0xaa, 0xbb];
    let puzzle = [1u8];
    let ph = clvm_utils::tree_hash_atom(&puzzle).to_bytes();
    let mut solution = vec![0xff, 0xff, 49, 0xff, 0xb0];
    solution.extend_from_slice(&pk.to_bytes());
    solution.extend_from_slice(&[0xff, 0x83]);
    solution.extend_from_slice(&msg);
    solution.push(0x80);
    if pad > 0 {
        // (1 <pad bytes>): REMARK with a payload
        solution.extend_from_slice(&[0xff, 0xff, 0x01, 0xff]);
        assert!(pad < 0x2000 && pad >= 0x40);
        solution.push(0xc0 | ((pad >> 8) as u8));
        solution.push((pad & 0xff) as u8);
        solution.extend(std::iter::repeat(tag).take(pad));
        solution.push(0x80);
    }
    solution.push(0x80);
    let coin = Coin::new([tag; 32].into(), ph.into(), 1_000 + tag as u64);
    let id: [u8; 32] = coin.coin_id().into();
    (SpendBundle::new(vec![CoinSpend::new(coin, Program::new(puzzle.as_slice().into()), solution.into())], sign(&sk, msg)), id)
}

#[derive(Clone, Copy, Debug, PartialEq)]
pub enum Kind { Compressed, Interned }

trait B {
    fn add(&mut self, b: &SpendBundle, cost: u64) -> Result<bool, String>;
    fn add_many(&mut self, bs: &[SpendBundle], cost: u64) -> Result<bool, String>;
    fn cost(&self) -> u64;
    fn fin(self: Box<Self>) -> Result<(Vec<u8>, Signature, u64), String>;
}
struct C(BlockBuilder);
struct I(InternedBlockBuilder);
impl B for C {
    fn add(&mut self, b: &SpendBundle, cost: u64) -> Result<bool, String> { self.0.add_spend_bundles([b], cost, &TEST_CONSTANTS).map(|r| r.0).map_err(|e| e.to_string()) }
    fn add_many(&mut self, bs: &[SpendBundle], cost: u64) -> Result<bool, String> { self.0.add_spend_bundles(bs.iter(), cost, &TEST_CONSTANTS).map(|r| r.0).map_err(|e| e.to_string()) }
    fn cost(&self) -> u64 { self.0.cost() }
    fn fin(self: Box<Self>) -> Result<(Vec<u8>, Signature, u64), String> { self.0.finalize(&TEST_CONSTANTS).map_err(|e| e.to_string()) }
}
impl B for I {
    fn add(&mut self, b: &SpendBundle, cost: u64) -> Result<bool, String> { self.0.add_spend_bundles([b], cost).map(|r| r.0).map_err(|e| e.to_string()) }
    fn add_many(&mut self, bs: &[SpendBundle], cost: u64) -> Result<bool, String> { self.0.add_spend_bundles(bs.iter(), cost).map(|r| r.0).map_err(|e| e.to_string()) }
    fn cost(&self) -> u64 { self.0.cost() }
    fn fin(mut self: Box<Self>) -> Result<(Vec<u8>, Signature, u64), String> { self.0.finalize().map_err(|e| e.to_string()) }
}
fn fresh(k: Kind) -> Box<dyn B> {
    match k { Kind::Compressed => Box::new(C(BlockBuilder::new().expect("new"))), Kind::Interned => Box::new(I(InternedBlockBuilder::new(&TEST_CONSTANTS))) }
}

/// offers: (bundle tag, pad, declared cost as an offset: Some(d) = land the running estimate on limit + d * cost_per_byte / 2, None = the bundle's true execution+condition cost)
pub type Offer = (u8, usize, Option<i64>);

fn true_cost(b: &SpendBundle) -> u64 {
    // execution + condition cost as the mempool would declare it: run the single-bundle generator and subtract the size cost
    let mut bb = BlockBuilder::new().expect("new");
    let _ = bb.add_spend_bundles([b], 0, &TEST_CONSTANTS);
    let (g, s, c) = bb.finalize(&TEST_CONSTANTS).expect("fin");
    let blocks: [&[u8]; 0] = [];
    let (_, conds) = run_block_generator2(&g, blocks, TEST_CONSTANTS.max_block_cost_clvm, MEMPOOL_MODE, &s, None, &TEST_CONSTANTS).expect("single bundle");
    conds.cost - c
}

pub fn run_history(k: Kind, offers: &[Offer], check_fresh_estimate: bool) -> Result<String, String> {
    let max = TEST_CONSTANTS.max_block_cost_clvm;
    let cpb = TEST_CONSTANTS.cost_per_byte as i64;
    let r = catch_unwind(AssertUnwindSafe(|| -> Result<String, String> {
        let mut b = fresh(k);
        let mut accepted: Vec<[u8; 32]> = vec![];
        let mut sig = Signature::default();
        let mut declared_sum = 0u64;
        let mut decisions: Vec<(bool, u64)> = vec![];
        for (n, (tag, pad, off)) in offers.iter().enumerate() {
            let (bun, id) = bundle(*tag, *pad);
            let before = b.cost();
            let declared = match off {
                None => true_cost(&bun),
                Some(d) => {
                    // the size estimate of this bundle on a scratch copy of the same history is not available: use the
                    // estimate on a fresh builder, which is what lands near the limit for the first offer
                    let mut scratch = fresh(k);
                    let base = scratch.cost();
                    let _ = scratch.add(&bun, 0)?;
                    let est = scratch.cost() - base;
                    let exact = max as i64 - before as i64 - est as i64;
                    let v = exact + d * cpb / 2;
                    if v < 0 { 0 } else { v as u64 }
                }
            };
            let added = b.add(&bun, declared)?;
            let after = b.cost();
            if after > max { return Err(format!("step {n}: running cost {after} exceeds the limit {max} (declared {declared}, accepted {added})")); }
            decisions.push((added, declared));
            if added { accepted.push(id); sig += &bun.aggregated_signature; declared_sum += declared; }
        }
        let running = b.cost();
        let (generator, fsig, cost) = b.fin()?;
        if cost > max { return Err(format!("finalize returned cost {cost} above the limit {max}")); }
        // (a builder on which no offer got past the early budget test still reports the pristine estimate: that is the
        //  known finding checked by the dedicated fresh-estimate obligation, not reported again per history)
        let pristine = accepted.is_empty() && running == fresh(k).cost();
        if cost > running && !offers.is_empty() && !pristine { return Err(format!("finalize returned cost {cost} above the running estimate {running}")); }
        if check_fresh_estimate && cost > running { return Err(format!("a fresh builder estimates its cost as {running} but finalize returns {cost}: the running estimate underestimates the final cost")); }
        // a refused offer leaves the later output unchanged: the same history without the refused offers gives the same output
        if decisions.iter().any(|d| !d.0) {
            let mut b2 = fresh(k);
            for ((tag, pad, _), (added, declared)) in offers.iter().zip(decisions.iter()) {
                if *added {
                    let (bun, _) = bundle(*tag, *pad);
                    if !b2.add(&bun, *declared)? { return Err("an offer accepted after a refusal is refused when the refused offer is left out".into()); }
                }
            }
            let (g2, s2, c2) = b2.fin()?;
            if s2 != fsig || c2 != cost { return Err(format!("leaving out the refused offers changes the output: cost {c2} vs {cost}, signature equal: {}", s2 == fsig)); }
            let blocks: [&[u8]; 0] = [];
            let flags = if k == Kind::Interned { MEMPOOL_MODE | ConsensusFlags::INTERNED_GENERATOR } else { MEMPOOL_MODE };
            let r1 = run_block_generator2(&generator, blocks, u64::MAX / 2, flags, &fsig, None, &TEST_CONSTANTS).map(|r| r.1.cost).map_err(|e| format!("{e:?}"));
            let r2 = run_block_generator2(&g2, blocks, u64::MAX / 2, flags, &s2, None, &TEST_CONSTANTS).map(|r| r.1.cost).map_err(|e| format!("{e:?}"));
            if r1 != r2 { return Err(format!("leaving out the refused offers changes what the generator validates to: {r1:?} vs {r2:?}")); }
        }
        if fsig != sig { return Err("finalize returned a signature that is not the aggregate of exactly the accepted bundles".into()); }
        let flags = if k == Kind::Interned { MEMPOOL_MODE | ConsensusFlags::INTERNED_GENERATOR } else { MEMPOOL_MODE };
        let blocks: [&[u8]; 0] = [];
        match run_block_generator2(&generator, blocks, u64::MAX / 2, flags, &fsig, None, &TEST_CONSTANTS) {
            Err(e) => Err(format!("the finalized generator fails full validation under the returned signature: {:?}", e)),
            Ok((_, conds)) => {
                let got: Vec<[u8; 32]> = conds.spends.iter().map(|s| (*s.coin_id).into()).collect();
                let mut g2 = got.clone(); g2.sort();
                let mut a2 = accepted.clone(); a2.sort();
                if g2 != a2 { return Err(format!("the generator spends {} coins, the accepted bundles {} (not the same set)", got.len(), accepted.len())); }
                // consensus cost of the generator = its size cost + quote + execution + conditions; the builder was told
                // the true execution+condition costs only for offers with `None`
                if offers.iter().all(|o| o.2.is_none()) && conds.cost != cost {
                    return Err(format!("returned cost {cost} differs from the consensus cost {} of the generator (declared sum {declared_sum})", conds.cost));
                }
                Ok(decisions.iter().map(|d| if d.0 { 'A' } else { 'r' }).collect())
            }
        }
    }));
    match r { Ok(r) => r, Err(_) => Err("panicked (finalize or add_spend_bundles)".into()) }
}


/// batches: several bundles offered in ONE call (declared cost = the sum of their true costs).  An accepted batch contributes
/// all of its spends and exactly the aggregate of its signatures; the finalized generator validates and costs what is returned.
pub fn run_batch_history(k: Kind, batches: &[Vec<u8>]) -> Result<String, String> {
    let max = TEST_CONSTANTS.max_block_cost_clvm;
    let r = catch_unwind(AssertUnwindSafe(|| -> Result<String, String> {
        let mut b = fresh(k);
        let mut accepted: Vec<[u8; 32]> = vec![];
        let mut sig = Signature::default();
        let mut decisions = String::new();
        for tags in batches {
            let made: Vec<(SpendBundle, [u8; 32])> = tags.iter().map(|t| bundle(*t, 0x80)).collect();
            let bundles: Vec<SpendBundle> = made.iter().map(|m| m.0.clone()).collect();
            let declared: u64 = tags.iter().map(|t| match *t { 240 => true_cost(&bundle(7, 0x80).0), 241 => 0, 230 | 231 => 1_000_000, t => true_cost(&bundle(t, 0x80).0) }).sum();
            if tags.iter().any(|t| *t == 230 || *t == 231) {
                // the attempt must fail, and fail cleanly: the running cost is what it was
                let before = b.cost();
                match b.add_many(&bundles, declared) {
                    Ok(v) => return Err(format!("a batch with an unparsable spend was not refused with an error (returned {v})")),
                    Err(_) => {}
                }
                if b.cost() != before { return Err(format!("an attempt that failed with an error changed the running cost from {before} to {}", b.cost())); }
                decisions.push('E');
                continue;
            }
            let added = b.add_many(&bundles, declared)?;
            if b.cost() > max { return Err(format!("running cost {} exceeds the limit", b.cost())); }
            decisions.push(if added { 'A' } else { 'r' });
            if added { for (bun, _) in &made { for cs in &bun.coin_spends { accepted.push(cs.coin.coin_id().into()); } sig += &bun.aggregated_signature; } }
        }
        let running = b.cost();
        let (generator, fsig, cost) = b.fin()?;
        if cost > max || cost > running { return Err(format!("finalize returned cost {cost}; limit {max}, running estimate {running}")); }
        if fsig != sig { return Err("finalize returned a signature that is not the aggregate of exactly the accepted bundles".into()); }
        let flags = if k == Kind::Interned { MEMPOOL_MODE | ConsensusFlags::INTERNED_GENERATOR } else { MEMPOOL_MODE };
        let blocks: [&[u8]; 0] = [];
        match run_block_generator2(&generator, blocks, u64::MAX / 2, flags, &fsig, None, &TEST_CONSTANTS) {
            Err(e) => Err(format!("the finalized generator fails full validation under the returned signature: {e:?}")),
            Ok((_, conds)) => {
                let mut got: Vec<[u8; 32]> = conds.spends.iter().map(|s| (*s.coin_id).into()).collect();
                got.sort(); accepted.sort();
                if got != accepted { return Err(format!("the generator spends {} coins, the accepted batches {}", got.len(), accepted.len())); }
                if conds.cost != cost { return Err(format!("returned cost {cost} differs from the consensus cost {} of the generator", conds.cost)); }
                Ok(decisions)
            }
        }
    }));
    match r { Ok(r) => r, Err(_) => Err("panicked (finalize or add_spend_bundles)".into()) }
}

pub fn batch_histories() -> Vec<(String, Kind, Vec<Vec<u8>>)> {
    let mut v = vec![];
    for k in [Kind::Compressed, Kind::Interned] {
        let kn = if k == Kind::Compressed { "compressed" } else { "interned" };
        v.push((format!("{kn}/batch-of-two"), k, vec![vec![1, 2]]));
        v.push((format!("{kn}/one-then-batch-of-two"), k, vec![vec![1], vec![2, 3]]));
        v.push((format!("{kn}/batch-of-three-then-one"), k, vec![vec![1, 2, 3], vec![4]]));
        v.push((format!("{kn}/two-batches-of-two"), k, vec![vec![1, 2], vec![3, 4]]));
        v.push((format!("{kn}/batch-of-five-disjoint"), k, vec![vec![200, 201, 202, 203, 204]]));
        v.push((format!("{kn}/empty-batch-then-two"), k, vec![vec![], vec![1, 2]]));
        // attempts that fail with an error (unparsable solution / puzzle, alone or after good bundles of the same batch) between
        // accepted ones: nothing of them is kept - not their spends, not their signatures, not their declared cost
        v.push((format!("{kn}/error-between-accepted"), k, vec![vec![1], vec![230], vec![2]]));
        v.push((format!("{kn}/error-puzzle-between-accepted"), k, vec![vec![1], vec![231], vec![2]]));
        v.push((format!("{kn}/error-late-in-batch"), k, vec![vec![1], vec![2, 3, 230], vec![4]]));
        v.push((format!("{kn}/error-first"), k, vec![vec![230], vec![1, 2]]));
        v.push((format!("{kn}/error-last"), k, vec![vec![1, 2], vec![3, 231]]));
        // a bundle without spends still contributes its signature
        v.push((format!("{kn}/signature-in-a-spendless-bundle"), k, vec![vec![240, 241]]));
        v.push((format!("{kn}/spendless-bundle-first"), k, vec![vec![1], vec![241, 240, 2]]));
    }
    v
}

pub fn histories(thorough: bool) -> Vec<(String, Kind, Vec<Offer>)> {
    let mut v = vec![];
    for k in [Kind::Compressed, Kind::Interned] {
        let kn = if k == Kind::Compressed { "compressed" } else { "interned" };
        v.push((format!("{kn}/empty"), k, vec![]));
        v.push((format!("{kn}/fresh-estimate"), k, vec![]));
        v.push((format!("{kn}/three-true-costs"), k, vec![(1, 0, None), (2, 100, None), (3, 0x300, None)]));
        v.push((format!("{kn}/same-puzzle-many"), k, (1..=12).map(|t| (t as u8, 0x80, None)).collect()));
        // the first offer lands on / around the limit, in half-byte steps
        for d in (if thorough { -40i64..=400 } else { -6i64..=40 }) {
            v.push((format!("{kn}/limit{:+}", d), k, vec![(1, 0, Some(d))]));
        }
        // spends that share nothing with the rest of the generator (the estimate has to count every cell of them)
        for d in -2i64..=2 {
            v.push((format!("{kn}/disjoint-limit{:+}", d), k, vec![(200, 0, Some(d))]));
            v.push((format!("{kn}/disjoint-second-limit{:+}", d), k, vec![(201, 0, None), (200, 0, Some(d))]));
        }
        v.push((format!("{kn}/disjoint-many"), k, (200..=212).map(|t| (t as u8, 0, None)).collect()));
        // accepted, then a late or early reject (signed, non-identity signature), then accepted again
        for d in (if thorough { (-4i64..=60).collect::<Vec<_>>() } else { vec![-1i64, 0, 1, 2, 3, 8, 30] }) {
            v.push((format!("{kn}/accept-reject{:+}-accept", d), k, vec![(1, 0, None), (2, 0x400, Some(d)), (3, 0, None)]));
        }
    }
    v
}

pub fn builders_ground(thorough: bool) -> EvalResult {
    let mut res = EvalResult { obligations: 0, discharged: 0, failures: vec![], samples: vec![], exhaustive: true };
    let prev = std::panic::take_hook();
    std::panic::set_hook(Box::new(|_| {}));
    let mut trace: Vec<String> = vec![];
    let hs = histories(thorough);
    let chunks: Vec<Vec<(String, Kind, Vec<Offer>)>> = hs.chunks((hs.len() + 15) / 16).map(|c| c.to_vec()).collect();
    let handles: Vec<_> = chunks.into_iter().map(|c| std::thread::spawn(move || c.into_iter().map(|(n, k, o)| { let r = run_history(k, &o, n.ends_with("/fresh-estimate")); (n, r) }).collect::<Vec<_>>())).collect();
    for h in handles {
        for (name, r) in h.join().unwrap_or_default() {
            res.obligations += 1;
            match r {
                Ok(info) => {
                    // the limit itself is admissible: an offer that lands exactly on it is accepted, one half byte over is not
                    let want = if name.ends_with("/limit+0") || name.ends_with("/limit-1") || name.ends_with("/disjoint-limit+0") || name.ends_with("/disjoint-limit-1") { Some("A") }
                        else if name.ends_with("/limit+1") || name.ends_with("/disjoint-limit+1") { Some("r") } else { None };
                    match want {
                        Some(w) if info != w => {
                            if res.failures.len() < 6 {
                                res.failures.push(json!({"id": format!("builders_ground/{name}"), "function": "BlockBuilder / InternedBlockBuilder",
                                    "message": format!("history {name}: decision '{info}' (A accepted, r refused), the limit rule says '{w}'"),
                                    "clause": "an offer landing exactly on the block limit is accepted, one over it is refused",
                                    "cex": {"unit": "eval", "function": "builders_ground", "input": {"history": name}}}));
                            }
                        }
                        _ => { res.discharged += 1; }
                    }
                    trace.push(format!("{name}:{info}"));
                }
                Err(m) => if res.failures.len() < 6 {
                    res.failures.push(json!({"id": format!("builders_ground/{name}"), "function": "BlockBuilder / InternedBlockBuilder",
                        "message": format!("history {name}: {m}"),
                        "clause": "within the limit after every step, refused offers change nothing, finalize total, generator == accepted bundles, signature == their aggregate, cost exact",
                        "cex": {"unit": "eval", "function": "builders_ground", "input": {"history": name}}}));
                },
            }
        }
    }
    for (name, k, batches) in batch_histories() {
        res.obligations += 1;
        match run_batch_history(k, &batches) {
            Ok(info) => { if info.chars().all(|c| c == 'A' || c == 'E') { res.discharged += 1; trace.push(format!("{name}:{info}")); } else if res.failures.len() < 6 {
                res.failures.push(json!({"id": format!("builders_ground/{name}"), "function": "BlockBuilder / InternedBlockBuilder",
                    "message": format!("history {name}: decisions '{info}': a batch with truthful costs far below the limit is refused"),
                    "clause": "batches of several bundles per call", "cex": {"unit": "eval", "function": "builders_ground", "input": {"history": name}}})); } }
            Err(m) => if res.failures.len() < 6 {
                res.failures.push(json!({"id": format!("builders_ground/{name}"), "function": "BlockBuilder / InternedBlockBuilder",
                    "message": format!("history {name}: {m}"),
                    "clause": "an accepted batch contributes all of its spends and exactly the aggregate of its signatures; the generator validates and costs what finalize returns",
                    "cex": {"unit": "eval", "function": "builders_ground", "input": {"history": name}}}));
            },
        }
    }
    std::panic::set_hook(prev);
    trace.sort();
    res.samples.push(json!({"note": format!("decisions per history (A accepted, r refused): {}", trace.join(" "))}));
    res.samples.push(json!({"obligation": format!("{} fixed builder histories (both builders; offers landing on the limit in half-byte steps -6..+40, accept/late-reject/accept with signed bundles, true-cost batches)", res.obligations), "backend": "native-eval"}));
    res
}

pub fn replay_builders(input: &Value) -> (bool, String) {
    let want = input["history"].as_str().unwrap_or("");
    let prev = std::panic::take_hook();
    std::panic::set_hook(Box::new(|_| {}));
    let mut out = (false, "unknown history".to_string());
    for (name, k, batches) in batch_histories() {
        if name == want {
            out = match run_batch_history(k, &batches) { Ok(info) if info.chars().all(|c| c == 'A') => (false, format!("history {name}: holds")), Ok(info) => (true, format!("history {name}: decisions {info}")), Err(m) => (true, format!("history {name}: {m}")) };
        }
    }
    for (name, k, o) in histories(true) {
        if name == want {
            out = match run_history(k, &o, name.ends_with("/fresh-estimate")) {
                Ok(info) => {
                    let want = if name.ends_with("/limit+0") || name.ends_with("/limit-1") || name.ends_with("/disjoint-limit+0") || name.ends_with("/disjoint-limit-1") { Some("A") }
                        else if name.ends_with("/limit+1") || name.ends_with("/disjoint-limit+1") { Some("r") } else { None };
                    match want { Some(w) if info != w => (true, format!("history {name}: decision '{info}', the limit rule says '{w}'")), _ => (false, format!("history {name}: holds")) }
                }
                Err(m) => (true, format!("history {name}: {m}")) };
        }
    }
    std::panic::set_hook(prev);
    out
}
