//! Ground obligations for C06: relations between runs of the real parser on fixed bundles.
//!  (a) strict-only-restricts: accepted with strictness flags set ==> accepted without them, identical summary
//!  (b) order independence: permuting the conditions of a spend (or the spends) changes neither verdict nor any aggregate
//! Bundles are built directly as CLVM trees and run through parse_spends (no signatures, no CLVM execution).
use chia_bls::Signature;
use chia_consensus::conditions::{parse_spends, MempoolVisitor, SpendBundleConditions};
use chia_consensus::consensus_constants::TEST_CONSTANTS;
use chia_consensus::flags::ConsensusFlags;
use chia_consensus::validation_error::ValidationErr;
use clvmr::allocator::{Allocator, NodePtr};
use serde_json::{json, Value};

use crate::eval::EvalResult;

/// one condition: opcode and arguments (byte strings); `tail` = extra improper/extra-argument shapes
#[derive(Clone, Debug, PartialEq)]
pub struct Cond {
    pub op: u16,
    pub args: Vec<Vec<u8>>,
    /// 0: nil-terminated; 1: one extra argument (0x01); 2: improper terminator (atom 0x01 instead of nil)
    pub tail: u8,
}

#[derive(Clone, Debug)]
pub struct Spend {
    pub parent: u8,
    pub amount: u64,
    pub conds: Vec<Cond>,
}

fn num(a: &mut Allocator, v: u64) -> NodePtr { a.new_number(v.into()).unwrap() }

fn build(a: &mut Allocator, spends: &[Spend]) -> NodePtr {
    let nil = a.nil();
    let mut list = nil;
    for s in spends.iter().rev() {
        let mut conds = nil;
        for c in s.conds.iter().rev() {
            let mut args = match c.tail { 2 => a.new_atom(&[1]).unwrap(), 1 => { let x = a.new_atom(&[1]).unwrap(); a.new_pair(x, nil).unwrap() }, _ => nil };
            for x in c.args.iter().rev() {
                let n = a.new_atom(x).unwrap();
                args = a.new_pair(n, args).unwrap();
            }
            let op = if c.op < 256 { a.new_atom(&[c.op as u8]).unwrap() } else { a.new_atom(&c.op.to_be_bytes()).unwrap() };
            let cond = a.new_pair(op, args).unwrap();
            conds = a.new_pair(cond, conds).unwrap();
        }
        // parent bytes >= 0xf0 name a coin created in the bundle: the child of the coin ([b - 0xf0; 32], [2; 32], 1000)
        let parent = if s.parent >= 0xf0 {
            let mut h = chia_sha2::Sha256::new();
            h.update([s.parent - 0xf0; 32]); h.update([2u8; 32]); h.update(be(1000));
            a.new_atom(&h.finalize()).unwrap()
        } else { a.new_atom(&[s.parent; 32]).unwrap() };
        let ph = a.new_atom(&[2u8; 32]).unwrap();
        let amount = num(a, s.amount);
        let sp = a.new_pair(conds, nil).unwrap();
        let sp = a.new_pair(amount, sp).unwrap();
        let sp = a.new_pair(ph, sp).unwrap();
        let sp = a.new_pair(parent, sp).unwrap();
        list = a.new_pair(sp, list).unwrap();
    }
    a.new_pair(list, nil).unwrap()
}

fn run(spends: &[Spend], flags: ConsensusFlags) -> Result<SpendBundleConditions, ValidationErr> { run_budget(spends, flags, 11_000_000_000) }
fn run_budget(spends: &[Spend], flags: ConsensusFlags, max_cost: u64) -> Result<SpendBundleConditions, ValidationErr> {
    let mut a = Allocator::new();
    let n = build(&mut a, spends);
    parse_spends::<MempoolVisitor>(&a, n, max_cost, 0, flags | ConsensusFlags::DONT_VALIDATE_SIGNATURE, &Signature::default(), None, &TEST_CONSTANTS)
}

/// every aggregate of the summary (order-insensitive: per-spend parts keyed by the coin's parent byte, sorted; the
/// positionally defined fast-forward bit is masked out)
fn summary(r: &Result<SpendBundleConditions, ValidationErr>, by_parent: &[u8]) -> String {
    match r {
        Err(_) => "REJECT".to_string(),
        Ok(c) => {
            let mut per: Vec<String> = c.spends.iter().enumerate().map(|(i, s)| format!(
                "[p{} cc={} hr={:?} sr={:?} bhr={:?} bsr={:?} bh={:?} bs={:?} created={} flags={}]",
                by_parent.get(i).copied().unwrap_or(0), s.condition_cost, s.height_relative, s.seconds_relative, s.before_height_relative,
                s.before_seconds_relative, s.birth_height, s.birth_seconds, s.create_coin.len(), s.flags & !4)).collect();
            per.sort();
            format!("OK cost={} cc={} rem={} add={} fee={} ha={} sa={} bha={:?} bsa={:?} {}", c.cost, c.condition_cost, c.removal_amount,
                c.addition_amount, c.reserve_fee, c.height_absolute, c.seconds_absolute, c.before_height_absolute, c.before_seconds_absolute, per.join(""))
        }
    }
}

fn be(v: u64) -> Vec<u8> {
    if v == 0 { return vec![]; }
    let b = v.to_be_bytes();
    let mut i = 0;
    while b[i] == 0 { i += 1; }
    let mut out = vec![];
    if b[i] & 0x80 != 0 { out.push(0); }
    out.extend_from_slice(&b[i..]);
    out
}

fn c(op: u16, args: Vec<Vec<u8>>) -> Cond { Cond { op, args, tail: 0 } }

/// the fixed families of condition lists (single spend with parent byte 1, amount 1000, unless stated)
pub fn families() -> Vec<(String, Vec<Spend>)> {
    let mut out: Vec<(String, Vec<Spend>)> = vec![];
    let one = |conds: Vec<Cond>| vec![Spend { parent: 1, amount: 1000, conds }];
    // messages: the coin sends to itself (mode 0b010_010: puzzle hash committed on both sides), n sends and n receives
    for n in [1usize, 2, 127, 128, 129, 300] {
        let send = c(66, vec![vec![0b01_0010], b"hello".to_vec(), vec![2u8; 32]]);
        let recv = c(67, vec![vec![0b01_0010], b"hello".to_vec(), vec![2u8; 32]]);
        let mut v = vec![];
        for _ in 0..n { v.push(send.clone()); }
        for _ in 0..n { v.push(recv.clone()); }
        out.push((format!("messages-{n}"), one(v)));
    }
    // unbalanced messages: sends and receives of one message that do not pair up are refused, whatever the size of the
    // imbalance (in particular a multiple of 256 or of 65536 / 256)
    for (ns, nr) in [(1usize, 0usize), (0, 1), (128, 0), (255, 0), (256, 0), (0, 256), (257, 1), (1, 257), (300, 44), (512, 0), (0, 512), (384, 128)] {
        let send = c(66, vec![vec![0b01_0010], b"hello".to_vec(), vec![2u8; 32]]);
        let recv = c(67, vec![vec![0b01_0010], b"hello".to_vec(), vec![2u8; 32]]);
        let mut v = vec![];
        for _ in 0..ns { v.push(send.clone()); }
        for _ in 0..nr { v.push(recv.clone()); }
        out.push((format!("messages-unbalanced-{ns}-{nr}"), one(v)));
    }
    // announcement-class conditions around the 1024 limit
    for n in [1usize, 1000, 1023, 1024, 1025, 2000] {
        let v: Vec<Cond> = (0..n).map(|i| c(60, vec![(i as u32 + 0x0100_0000).to_be_bytes().to_vec()])).collect();
        out.push((format!("announcements-{n}"), one(v)));
    }
    // time locks: several of each kind, different values (max / min folding), plus birth assertions
    out.push(("time-locks".into(), one(vec![
        c(80, vec![be(10)]), c(80, vec![be(30)]), c(80, vec![be(20)]), c(81, vec![be(1000)]), c(81, vec![be(3000)]),
        c(82, vec![be(5)]), c(82, vec![be(7)]), c(83, vec![be(100)]), c(83, vec![be(50)]),
        c(84, vec![be(1_000_000)]), c(84, vec![be(900_000)]), c(85, vec![be(2_000_000_000)]), c(85, vec![be(1_900_000_000)]),
        c(86, vec![be(100_000)]), c(86, vec![be(90_000)]), c(87, vec![be(4_000_000)]), c(87, vec![be(3_900_000)]),
        c(74, vec![be(777)]), c(75, vec![be(55)]), c(74, vec![be(777)]),
    ])));
    // an impossible relative window in either order
    out.push(("impossible-window".into(), one(vec![c(80, vec![be(100)]), c(84, vec![be(100)])])));
    out.push(("impossible-window-abs".into(), one(vec![c(83, vec![be(100)]), c(87, vec![be(100)]), c(52, vec![be(1)])])));
    // value: coins and fees (conservation boundary: 1000 in, 600+399 out + fee 1)
    out.push(("value-exact".into(), one(vec![c(51, vec![vec![3u8; 32], be(600)]), c(51, vec![vec![4u8; 32], be(399)]), c(52, vec![be(1)])])));
    out.push(("value-minting".into(), one(vec![c(51, vec![vec![3u8; 32], be(600)]), c(51, vec![vec![4u8; 32], be(401)])])));
    out.push(("value-fee-short".into(), one(vec![c(51, vec![vec![3u8; 32], be(600)]), c(52, vec![be(300)]), c(52, vec![be(101)])])));
    out.push(("duplicate-output".into(), one(vec![c(51, vec![vec![3u8; 32], be(5)]), c(73, vec![be(1000)]), c(51, vec![vec![3u8; 32], be(5)])])));
    // unknown conditions and extra arguments (what the strictness flags are about)
    out.push(("unknown-opcode".into(), one(vec![c(51, vec![vec![3u8; 32], be(5)]), c(0x0101, vec![be(1)]), c(99, vec![])])));
    out.push(("extra-argument".into(), one(vec![Cond { op: 80, args: vec![be(10)], tail: 1 }, c(73, vec![be(1000)])])));
    out.push(("improper-terminator".into(), one(vec![Cond { op: 73, args: vec![be(1000)], tail: 2 }, c(80, vec![be(10)])])));
    out.push(("create-coin-memo-extra".into(), one(vec![Cond { op: 51, args: vec![vec![3u8; 32], be(5)], tail: 1 }])));
    // several spends: concurrent spend / puzzle assertions and announcements across spends
    let id = |parent: u8, amount: u64| -> Vec<u8> {
        let mut h = chia_sha2::Sha256::new();
        h.update([parent; 32]); h.update([2u8; 32]); h.update(be(amount));
        h.finalize().to_vec()
    };
    out.push(("two-spends-concurrent".into(), vec![
        Spend { parent: 1, amount: 1000, conds: vec![c(64, vec![id(5, 7)]), c(65, vec![vec![2u8; 32]]), c(52, vec![be(3)])] },
        Spend { parent: 5, amount: 7, conds: vec![c(64, vec![id(1, 1000)]), c(80, vec![be(4)])] },
    ]));
    {
        let mut h = chia_sha2::Sha256::new();
        h.update(id(5, 7)); h.update(b"note");
        let ann = h.finalize().to_vec();
        out.push(("two-spends-announcement".into(), vec![
            Spend { parent: 1, amount: 1000, conds: vec![c(61, vec![ann]), c(81, vec![be(9)])] },
            Spend { parent: 5, amount: 7, conds: vec![c(60, vec![b"note".to_vec()]), c(85, vec![be(1_000_000)])] },
        ]));
    }
    // coins created and spent in the same bundle (the child of coin 1 with the shared puzzle hash, amount 400); acceptance may not
    // depend on whether the parent's spend is listed before or after the child's
    for (nm, child_conds) in [("ephemeral-asserted", vec![c(76, vec![])]), ("ephemeral-relative-height", vec![c(82, vec![be(1)])]),
                              ("ephemeral-relative-seconds", vec![c(80, vec![be(1)])]), ("ephemeral-before-relative", vec![c(86, vec![be(100)])]),
                              ("ephemeral-birth", vec![c(74, vec![be(5)])]), ("ephemeral-plain", vec![c(81, vec![be(5)])])] {
        out.push((nm.to_string(), vec![
            Spend { parent: 1, amount: 1000, conds: vec![c(51, vec![vec![2u8; 32], be(400)])] },
            Spend { parent: 0xf1, amount: 400, conds: child_conds.clone() },
        ]));
        out.push((format!("{nm}-child-first"), vec![
            Spend { parent: 0xf1, amount: 400, conds: child_conds },
            Spend { parent: 1, amount: 1000, conds: vec![c(51, vec![vec![2u8; 32], be(400)])] },
        ]));
    }
    // the same child also asserting that it is ephemeral: the assertion holds, the relative / birth condition is still refused
    for (nm, lock) in [("height-relative", c(82, vec![be(1)])), ("seconds-relative", c(80, vec![be(1)])), ("before-height-relative", c(86, vec![be(100)])),
                       ("before-seconds-relative", c(84, vec![be(100)])), ("birth-seconds", c(74, vec![be(5)])), ("birth-height", c(75, vec![be(5)])),
                       ("height-relative-zero", c(82, vec![vec![]]))] {
        for (order, child_conds) in [("assert-first", vec![c(76, vec![]), lock.clone()]), ("lock-first", vec![lock.clone(), c(76, vec![])])] {
            out.push((format!("ephemeral-asserted-and-{nm}-{order}"), vec![
                Spend { parent: 1, amount: 1000, conds: vec![c(51, vec![vec![2u8; 32], be(400)])] },
                Spend { parent: 0xf1, amount: 400, conds: child_conds.clone() },
            ]));
            out.push((format!("ephemeral-asserted-and-{nm}-{order}-child-first"), vec![
                Spend { parent: 0xf1, amount: 400, conds: child_conds },
                Spend { parent: 1, amount: 1000, conds: vec![c(51, vec![vec![2u8; 32], be(400)])] },
            ]));
        }
    }
    // ASSERT_EPHEMERAL on a coin that no spend of the bundle creates
    out.push(("ephemeral-asserted-not-created".into(), vec![
        Spend { parent: 1, amount: 1000, conds: vec![c(51, vec![vec![2u8; 32], be(401)])] },
        Spend { parent: 0xf1, amount: 400, conds: vec![c(76, vec![])] },
    ]));
    // a spend without any cost-bearing condition next to one with: the per-spend charge is the last thing to fit the budget
    out.push(("two-spends-one-free".into(), vec![
        Spend { parent: 1, amount: 1000, conds: vec![c(51, vec![vec![3u8; 32], be(600)])] },
        Spend { parent: 5, amount: 7, conds: vec![] },
    ]));
    out.push(("three-spends-free-middle".into(), vec![
        Spend { parent: 1, amount: 1000, conds: vec![c(51, vec![vec![3u8; 32], be(600)])] },
        Spend { parent: 5, amount: 7, conds: vec![c(1, vec![])] },
        Spend { parent: 6, amount: 9, conds: vec![c(73, vec![be(9)])] },
    ]));
    // the spend-count limit
    for n in [5999usize, 6000, 6001] {
        let v: Vec<Spend> = (0..n).map(|i| Spend { parent: 10, amount: 1 + i as u64, conds: vec![] }).collect();
        out.push((format!("spend-count-{n}"), v));
    }
    out
}


/// one well-formed (want = true) or malformed (want = false) condition of every kind, alone in the spend of coin
/// (parent [1; 32], puzzle hash [2; 32], amount 1000): the verdict each rule prescribes at the boundaries of its argument
/// encoding.  A well-formed, nil-terminated condition is accepted under every flag set; a malformed one under none.
pub fn single_conditions() -> Vec<(String, Vec<Spend>, bool)> {
    let mut out: Vec<(String, Vec<Spend>, bool)> = vec![];
    let pk = chia_bls::SecretKey::from_seed(&[9; 32]).public_key().to_bytes().to_vec();
    let coin_id = { let mut h = chia_sha2::Sha256::new(); h.update([1u8; 32]); h.update([2u8; 32]); h.update(be(1000)); h.finalize().to_vec() };
    let one = |conds: Vec<Cond>| vec![Spend { parent: 1, amount: 1000, conds }];
    let mut add = |name: String, conds: Vec<Cond>, want: bool| out.push((name, one(conds), want));
    // AGG_SIG_*: 48-byte key, message of 0..=1024 bytes
    for op in [43u16, 44, 45, 46, 47, 48, 49, 50] {
        for (mn, msg) in [("empty", vec![]), ("one", vec![7u8]), ("max", vec![7u8; 1024])] {
            add(format!("single/agg-sig-{op}/msg-{mn}"), vec![c(op, vec![pk.clone(), msg])], true);
        }
        add(format!("single/agg-sig-{op}/msg-1025"), vec![c(op, vec![pk.clone(), vec![7u8; 1025]])], false);
        add(format!("single/agg-sig-{op}/key-47-bytes"), vec![c(op, vec![pk[..47].to_vec(), vec![7u8]])], false);
        add(format!("single/agg-sig-{op}/key-49-bytes"), vec![c(op, vec![[pk.clone(), vec![0u8]].concat(), vec![7u8]])], false);
        add(format!("single/agg-sig-{op}/no-message"), vec![c(op, vec![pk.clone()])], false);
    }
    // CREATE_COIN
    for (an, am) in [("0", be(0)), ("1", be(1)), ("127", be(0x7f)), ("128", be(0x80)), ("1000", be(1000))] {
        add(format!("single/create-coin/amount-{an}"), vec![c(51, vec![vec![3u8; 32], am.clone()])], true);
        add(format!("single/create-coin/amount-{an}-hint"), vec![Cond { op: 51, args: vec![vec![3u8; 32], am], tail: 0 }], true);
    }
    add("single/create-coin/amount-1001-minting".into(), vec![c(51, vec![vec![3u8; 32], be(1001)])], false);
    add("single/create-coin/puzzle-hash-31".into(), vec![c(51, vec![vec![3u8; 31], be(1)])], false);
    add("single/create-coin/puzzle-hash-33".into(), vec![c(51, vec![vec![3u8; 33], be(1)])], false);
    add("single/create-coin/amount-negative".into(), vec![c(51, vec![vec![3u8; 32], vec![0x80]])], false);
    add("single/create-coin/amount-above-u64".into(), vec![c(51, vec![vec![3u8; 32], vec![1, 0, 0, 0, 0, 0, 0, 0, 0]])], false);
    add("single/create-coin/amount-leading-zero".into(), vec![c(51, vec![vec![3u8; 32], vec![0, 1]])], false);
    add("single/create-coin/no-amount".into(), vec![c(51, vec![vec![3u8; 32]])], false);
    // RESERVE_FEE
    for v in [0u64, 1, 1000] { add(format!("single/reserve-fee/{v}"), vec![c(52, vec![be(v)])], true); }
    add("single/reserve-fee/1001-not-covered".into(), vec![c(52, vec![be(1001)])], false);
    add("single/reserve-fee/negative".into(), vec![c(52, vec![vec![0xff]])], false);
    // announcements: created alone; asserted together with their creation
    for (mn, msg) in [("empty", vec![]), ("one", vec![7u8]), ("max", vec![7u8; 1024])] {
        add(format!("single/create-coin-announcement/{mn}"), vec![c(60, vec![msg.clone()])], true);
        add(format!("single/create-puzzle-announcement/{mn}"), vec![c(62, vec![msg.clone()])], true);
        let ca = { let mut h = chia_sha2::Sha256::new(); h.update(&coin_id); h.update(&msg); h.finalize().to_vec() };
        let pa = { let mut h = chia_sha2::Sha256::new(); h.update([2u8; 32]); h.update(&msg); h.finalize().to_vec() };
        add(format!("single/assert-coin-announcement/{mn}"), vec![c(60, vec![msg.clone()]), c(61, vec![ca])], true);
        add(format!("single/assert-puzzle-announcement/{mn}"), vec![c(62, vec![msg.clone()]), c(63, vec![pa])], true);
    }
    add("single/create-coin-announcement/1025".into(), vec![c(60, vec![vec![7u8; 1025]])], false);
    add("single/create-puzzle-announcement/1025".into(), vec![c(62, vec![vec![7u8; 1025]])], false);
    add("single/assert-coin-announcement/unmatched".into(), vec![c(61, vec![vec![5u8; 32]])], false);
    add("single/assert-puzzle-announcement/unmatched".into(), vec![c(63, vec![vec![5u8; 32]])], false);
    add("single/assert-coin-announcement/31-bytes".into(), vec![c(61, vec![vec![5u8; 31]])], false);
    // concurrent spend / puzzle: the coin itself is spent in the bundle
    add("single/assert-concurrent-spend/self".into(), vec![c(64, vec![coin_id.clone()])], true);
    add("single/assert-concurrent-puzzle/self".into(), vec![c(65, vec![vec![2u8; 32]])], true);
    add("single/assert-concurrent-spend/absent".into(), vec![c(64, vec![vec![5u8; 32]])], false);
    add("single/assert-concurrent-puzzle/absent".into(), vec![c(65, vec![vec![5u8; 32]])], false);
    // self assertions
    add("single/assert-my-coin-id/right".into(), vec![c(70, vec![coin_id.clone()])], true);
    add("single/assert-my-coin-id/wrong".into(), vec![c(70, vec![vec![5u8; 32]])], false);
    add("single/assert-my-parent-id/right".into(), vec![c(71, vec![vec![1u8; 32]])], true);
    add("single/assert-my-parent-id/wrong".into(), vec![c(71, vec![vec![5u8; 32]])], false);
    add("single/assert-my-puzzlehash/right".into(), vec![c(72, vec![vec![2u8; 32]])], true);
    add("single/assert-my-puzzlehash/wrong".into(), vec![c(72, vec![vec![5u8; 32]])], false);
    add("single/assert-my-amount/right".into(), vec![c(73, vec![be(1000)])], true);
    add("single/assert-my-amount/wrong".into(), vec![c(73, vec![be(999)])], false);
    add("single/assert-my-amount/leading-zero".into(), vec![c(73, vec![vec![0, 0x03, 0xe8]])], false);
    for v in [0u64, 1, 0xffff_ffff] { add(format!("single/assert-my-birth-height/{v}"), vec![c(75, vec![be(v)])], true); }
    for v in [0u64, 1, u64::MAX] { add(format!("single/assert-my-birth-seconds/{v}"), vec![c(74, vec![be(v)])], true); }
    add("single/assert-my-birth-height/above-u32".into(), vec![c(75, vec![be(0x1_0000_0000)])], false);
    add("single/assert-my-birth-height/negative".into(), vec![c(75, vec![vec![0xff]])], false);
    // time locks: "after" locks take any value (a negative one holds trivially), "before" locks must be satisfiable
    for (op, nm, wide) in [(80u16, "seconds-relative", true), (81, "seconds-absolute", true), (82, "height-relative", false), (83, "height-absolute", false)] {
        let max = if wide { u64::MAX } else { 0xffff_ffff };
        for v in [0u64, 1, max] { add(format!("single/assert-{nm}/{v}"), vec![c(op, vec![be(v)])], true); }
        add(format!("single/assert-{nm}/negative"), vec![c(op, vec![vec![0xff]])], true);
        add(format!("single/assert-{nm}/above-range"), vec![c(op, vec![if wide { vec![1, 0, 0, 0, 0, 0, 0, 0, 0] } else { be(0x1_0000_0000) }])], false);
    }
    for (op, nm, wide) in [(84u16, "before-seconds-relative", true), (85, "before-seconds-absolute", true), (86, "before-height-relative", false), (87, "before-height-absolute", false)] {
        let max = if wide { u64::MAX } else { 0xffff_ffff };
        for v in [1u64, 2, max] { add(format!("single/assert-{nm}/{v}"), vec![c(op, vec![be(v)])], true); }
        add(format!("single/assert-{nm}/negative"), vec![c(op, vec![vec![0xff]])], false);
        add(format!("single/assert-{nm}/above-range"), vec![c(op, vec![if wide { vec![1, 0, 0, 0, 0, 0, 0, 0, 0] } else { be(0x1_0000_0000) }])], true);
    }
    // REMARK takes anything
    add("single/remark/no-arguments".into(), vec![c(1, vec![])], true);
    add("single/remark/arguments".into(), vec![c(1, vec![vec![7u8; 40], vec![]])], true);
    out
}

fn fork_flags() -> Vec<(&'static str, ConsensusFlags)> {
    vec![("none", ConsensusFlags::empty()), ("cost-conditions", ConsensusFlags::COST_CONDITIONS)]
}
fn strict_sets() -> Vec<(&'static str, ConsensusFlags)> {
    vec![("NO_UNKNOWN_CONDS", ConsensusFlags::NO_UNKNOWN_CONDS), ("STRICT_ARGS_COUNT", ConsensusFlags::STRICT_ARGS_COUNT),
         ("LIMIT_SPENDS", ConsensusFlags::LIMIT_SPENDS),
         ("all-three", ConsensusFlags::NO_UNKNOWN_CONDS | ConsensusFlags::STRICT_ARGS_COUNT | ConsensusFlags::LIMIT_SPENDS)]
}

/// the orders tried for a list: reversed, rotated by one, interleaved halves (first half and second half alternating)
fn orders<T: Clone>(v: &[T]) -> Vec<(&'static str, Vec<T>)> {
    let n = v.len();
    if n < 2 { return vec![]; }
    let mut rev = v.to_vec(); rev.reverse();
    let mut rot = v.to_vec(); rot.rotate_left(1);
    let mut inter = vec![];
    let h = n / 2;
    for i in 0..(n - h) { inter.push(v[i].clone()); if h + i < n && i < h { inter.push(v[n - h + i].clone()); } }
    if inter.len() != n { inter = rev.clone(); }
    vec![("reversed", rev), ("rotated", rot), ("interleaved", inter)]
}

pub struct Failure { pub id: String, pub message: String, pub input: Value }

pub fn check_family(name: &str, spends: &[Spend], thorough: bool) -> (u64, Vec<Failure>) {
    let mut n = 0u64;
    let mut fails = vec![];
    let parents: Vec<u8> = spends.iter().map(|s| s.parent).collect();
    for (fname, ff) in fork_flags() {
        let relaxed = summary(&run(spends, ff), &parents);
        // (a) strict only restricts
        for (sname, sf) in strict_sets() {
            n += 1;
            let strict = summary(&run(spends, ff | sf), &parents);
            if strict != "REJECT" && strict != relaxed {
                fails.push(Failure { id: format!("relations_ground/{name}/strict-{sname}/{fname}"),
                    message: format!("family {name}, fork flags {fname}: accepted with {sname} as {strict} but without it {relaxed}"),
                    input: json!({"family": name, "relation": "strict", "strict": sname, "fork": fname}) });
            }
        }
        // (b) order of conditions within each spend, and of the spends
        if spends.len() <= 2 {
            for (si, s) in spends.iter().enumerate() {
                let mut all_orders: Vec<(String, Vec<Cond>)> = orders(&s.conds).into_iter().map(|(n, o)| (n.to_string(), o)).collect();
                if thorough && s.conds.len() > 2 {
                    let mut rng = crate::rng::Rng::new(0x5eed_0000 + si as u64 + s.conds.len() as u64);
                    for k in 0..12 {
                        let mut o = s.conds.clone();
                        for i in (1..o.len()).rev() { let j = (rng.next() % (i as u64 + 1)) as usize; o.swap(i, j); }
                        all_orders.push((format!("shuffle{k}"), o));
                    }
                }
                for (oname, o) in all_orders {
                    n += 1;
                    let mut sp = spends.to_vec();
                    sp[si].conds = o;
                    let got = summary(&run(&sp, ff), &parents);
                    if got != relaxed {
                        fails.push(Failure { id: format!("relations_ground/{name}/conditions-{oname}-spend{si}/{fname}"),
                            message: format!("family {name}, fork flags {fname}: conditions of spend {si} {oname}: {got}; original order: {relaxed}"),
                            input: json!({"family": name, "relation": "cond-order", "order": oname, "spend": si, "fork": fname}) });
                    }
                }
            }
        }
        // (c) with a budget of exactly the cost: every order is accepted, like the original one (the limit is not order dependent)
        if let Ok(orig) = run(spends, ff) {
            let budget = orig.cost;
            let mut variants: Vec<(String, Vec<Spend>, Vec<u8>)> = vec![("original".to_string(), spends.to_vec(), parents.clone())];
            if spends.len() >= 2 && spends.len() <= 8 {
                let mut rev = spends.to_vec(); rev.reverse();
                let pr: Vec<u8> = rev.iter().map(|s| s.parent).collect();
                variants.push(("spends-reversed".to_string(), rev, pr));
            }
            if spends.len() <= 2 {
                for (si, s) in spends.iter().enumerate() {
                    if s.conds.len() >= 2 { let mut sp = spends.to_vec(); sp[si].conds.reverse(); variants.push((format!("conditions-reversed-spend{si}"), sp, parents.clone())); }
                }
            }
            for (vname, sp, pars) in variants {
                n += 1;
                let got = summary(&run_budget(&sp, ff, budget), &pars);
                if got != relaxed {
                    fails.push(Failure { id: format!("relations_ground/{name}/exact-budget-{vname}/{fname}"),
                        message: format!("family {name}, fork flags {fname}, budget {budget} (exactly the cost), order {vname}: {got}; with ample budget: {relaxed}"),
                        input: json!({"family": name, "relation": "exact-budget", "order": vname, "fork": fname}) });
                }
            }
        }
        if spends.len() == 2 {
            n += 1;
            let sp = vec![spends[1].clone(), spends[0].clone()];
            let got = summary(&run(&sp, ff), &[parents[1], parents[0]]);
            if got != relaxed {
                fails.push(Failure { id: format!("relations_ground/{name}/spends-swapped/{fname}"),
                    message: format!("family {name}, fork flags {fname}: spends swapped: {got}; original order: {relaxed}"),
                    input: json!({"family": name, "relation": "spend-order", "fork": fname}) });
            }
        }
    }
    (n, fails)
}

/// verdicts the rules prescribe at the limits (C01-C03 statements): (family, fork flags, strictness flags, accepted?)
fn expected_verdicts() -> Vec<(String, &'static str, &'static str, bool)> {
    let mut dynamic: Vec<(String, &'static str, &'static str, bool)> = vec![];
    // a relative or birth condition on a coin created in the same bundle is refused whether or not the spend also asserts
    // that it is ephemeral, under every flag set
    for (name, _) in families() {
        if name.starts_with("messages-unbalanced-") {
            dynamic.push((name.clone(), "none", "", false));
            dynamic.push((name.clone(), "cost-conditions", "all-three", false));
        }
        if name.starts_with("ephemeral-asserted-and-") {
            dynamic.push((name.clone(), "none", "", false));
            dynamic.push((name.clone(), "cost-conditions", "all-three", false));
        }
    }
    let fixed: Vec<(&'static str, &'static str, &'static str, bool)> = vec![
        ("spend-count-5999", "none", "LIMIT_SPENDS", true), ("spend-count-6000", "none", "LIMIT_SPENDS", true),
        ("spend-count-6001", "none", "LIMIT_SPENDS", false), ("spend-count-6001", "none", "", true),
        ("spend-count-6000", "cost-conditions", "LIMIT_SPENDS", true), ("spend-count-6001", "cost-conditions", "LIMIT_SPENDS", false),
        ("announcements-1024", "none", "", true), ("announcements-1025", "none", "", false), ("announcements-1025", "cost-conditions", "", true),
        ("announcements-1024", "none", "all-three", true), ("announcements-1025", "none", "LIMIT_SPENDS", false),
        ("messages-1", "none", "", true), ("messages-128", "none", "", true), ("messages-300", "cost-conditions", "", true),
        ("value-exact", "none", "", true), ("value-minting", "none", "", false), ("value-fee-short", "none", "", false),
        ("impossible-window", "none", "", false), ("impossible-window-abs", "none", "", false), ("duplicate-output", "none", "", false),
        ("time-locks", "none", "", true), ("two-spends-concurrent", "none", "", true), ("two-spends-announcement", "none", "", true),
        ("unknown-opcode", "none", "", true), ("unknown-opcode", "none", "NO_UNKNOWN_CONDS", false),
        ("extra-argument", "none", "", true), ("extra-argument", "none", "STRICT_ARGS_COUNT", false),
        ("improper-terminator", "none", "", true), ("improper-terminator", "none", "STRICT_ARGS_COUNT", false),
        ("ephemeral-asserted", "none", "", true), ("ephemeral-asserted-child-first", "none", "", true), ("ephemeral-asserted-not-created", "none", "", false),
        ("ephemeral-relative-height", "none", "", false), ("ephemeral-relative-height-child-first", "none", "", false),
        ("ephemeral-relative-seconds", "none", "", false), ("ephemeral-relative-seconds-child-first", "none", "", false),
        ("ephemeral-before-relative", "none", "", false), ("ephemeral-before-relative-child-first", "none", "", false),
        ("ephemeral-birth", "none", "", false), ("ephemeral-birth-child-first", "none", "", false),
        ("ephemeral-plain", "none", "", true), ("ephemeral-plain-child-first", "none", "", true),
        ("ephemeral-asserted", "cost-conditions", "all-three", true), ("ephemeral-asserted-child-first", "cost-conditions", "all-three", true),
    ];
    fixed.into_iter().map(|(a, b, c, d)| (a.to_string(), b, c, d)).chain(dynamic).collect()
}

pub fn relations_ground(thorough: bool) -> EvalResult {
    let mut res = EvalResult { obligations: 0, discharged: 0, failures: vec![], samples: vec![], exhaustive: true };
    for (name, spends, want) in single_conditions() {
        for (fname, ff) in fork_flags() {
            for (sname, sf) in [("lenient", ConsensusFlags::empty()), ("all-three", ConsensusFlags::NO_UNKNOWN_CONDS | ConsensusFlags::STRICT_ARGS_COUNT | ConsensusFlags::LIMIT_SPENDS)] {
                res.obligations += 1;
                let got = run(&spends, ff | sf).is_ok();
                if got == want { res.discharged += 1; } else if res.failures.len() < 6 {
                    res.failures.push(json!({"id": format!("relations_ground/{name}/{fname}/{sname}"), "function": "parse_spends",
                        "message": format!("{name}, fork flags {fname}, {sname}: accepted = {got}, the rule for this condition says {want}"),
                        "clause": "each condition is accepted or rejected as its rule prescribes, at the boundaries of its argument encoding",
                        "cex": {"unit": "eval", "function": "relations_ground", "input": {"family": name, "relation": "single", "fork": fname, "strict": sname, "want": want}}}));
                }
            }
        }
    }
    {
        let fams = families();
        for (fam, fork, strict, want) in expected_verdicts() {
            res.obligations += 1;
            let spends = match fams.iter().find(|f| f.0 == fam) { Some(f) => &f.1, None => continue };
            let fam = fam.as_str();
            let ff = fork_flags().into_iter().find(|f| f.0 == fork).map(|f| f.1).unwrap_or(ConsensusFlags::empty());
            let sf = strict_sets().into_iter().find(|f| f.0 == strict).map(|f| f.1).unwrap_or(ConsensusFlags::empty());
            let got = run(spends, ff | sf).is_ok();
            if got == want { res.discharged += 1; } else if res.failures.len() < 6 {
                res.failures.push(json!({"id": format!("relations_ground/{fam}/verdict/{fork}/{}", if strict.is_empty() { "lenient" } else { strict }), "function": "parse_spends",
                    "message": format!("family {fam}, fork flags {fork}, strictness '{strict}': accepted = {got}, the rules say {want}"),
                    "clause": "verdict at the limit prescribed by the rules",
                    "cex": {"unit": "eval", "function": "relations_ground", "input": {"family": fam, "relation": "verdict", "fork": fork, "strict": strict, "want": want}}}));
            }
        }
    }
    let fams = families();
    let handles: Vec<_> = fams.into_iter().map(|(name, spends)| std::thread::spawn(move || check_family(&name, &spends, thorough))).collect();
    for h in handles {
        let (n, fails) = h.join().unwrap_or((0, vec![]));
        res.obligations += n;
        res.discharged += n - fails.len() as u64;
        for f in fails {
            if res.failures.len() < 6 {
                res.failures.push(json!({"id": f.id, "function": "parse_spends", "message": f.message,
                    "clause": "strict acceptance ==> identical lenient acceptance; permutations leave verdict and aggregates unchanged",
                    "cex": {"unit": "eval", "function": "relations_ground", "input": f.input}}));
            }
        }
    }
    let accepted: Vec<String> = families().into_iter().filter(|(_, sp)| run(sp, ConsensusFlags::empty()).is_ok()).map(|(n, _)| n).collect();
    res.samples.push(json!({"note": format!("families accepted under empty flags (the relations are not vacuous on these): {}", accepted.join(", "))}));
    res.samples.push(json!({"obligation": format!("{} relations between runs of parse_spends on fixed bundles (messages x{{1,2,127,128,129,300}}, announcements around 1024, time locks, value boundaries, unknown/extra-argument shapes, cross-spend assertions, 5999/6000/6001 spends)", res.obligations), "backend": "native-eval"}));
    res
}

pub fn replay_relations(input: &Value) -> (bool, String) {
    let fam = input["family"].as_str().unwrap_or("");
    if input["relation"].as_str() == Some("verdict") {
        let fork = input["fork"].as_str().unwrap_or(""); let strict = input["strict"].as_str().unwrap_or(""); let want = input["want"].as_bool().unwrap_or(true);
        if let Some((_, spends)) = families().into_iter().find(|f| f.0 == fam) {
            let ff = fork_flags().into_iter().find(|f| f.0 == fork).map(|f| f.1).unwrap_or(ConsensusFlags::empty());
            let sf = strict_sets().into_iter().find(|f| f.0 == strict).map(|f| f.1).unwrap_or(ConsensusFlags::empty());
            let got = run(&spends, ff | sf).is_ok();
            return (got != want, format!("family {fam}, fork flags {fork}, strictness '{strict}': accepted = {got}, the rules say {want}"));
        }
        return (false, "unknown family".into());
    }
    if input["relation"].as_str() == Some("single") {
        let fork = input["fork"].as_str().unwrap_or(""); let want = input["want"].as_bool().unwrap_or(true);
        let sf = if input["strict"].as_str() == Some("all-three") { ConsensusFlags::NO_UNKNOWN_CONDS | ConsensusFlags::STRICT_ARGS_COUNT | ConsensusFlags::LIMIT_SPENDS } else { ConsensusFlags::empty() };
        let ff = fork_flags().into_iter().find(|f| f.0 == fork).map(|f| f.1).unwrap_or(ConsensusFlags::empty());
        if let Some((_, spends, _)) = single_conditions().into_iter().find(|f| f.0 == fam) {
            let got = run(&spends, ff | sf).is_ok();
            return (got != want, format!("{fam}, fork flags {fork}: accepted = {got}, the rule says {want}"));
        }
        return (false, "unknown single condition".into());
    }
    for (name, spends) in families() {
        if name == fam {
            let (_, fails) = check_family(&name, &spends, true);
            for f in fails {
                if f.input == *input { return (true, f.message); }
            }
            return (false, format!("family {fam}: relation holds"));
        }
    }
    (false, "unknown family".into())
}
