//! Ground obligations for C08: for fixed bundles (amounts at every canonical-length boundary, several puzzle / solution
//! shapes, shared sub-trees) the mempool path (run_spendbundle) and the block path over a generator built from the bundle -
//! plainly serialized, back-reference compressed, or produced by either block builder - give the same verdict and the same
//! conditions; the mempool cost differs from the plain generator's cost by exactly the quote-wrapper overhead; the predicted
//! generator length is the actual serialized length.
use chia_bls::Signature;
use chia_consensus::allocator::make_allocator;
use chia_consensus::build_compressed_block::BlockBuilder;
use chia_consensus::build_interned_block::InternedBlockBuilder;
use chia_consensus::consensus_constants::TEST_CONSTANTS;
use chia_consensus::flags::{ConsensusFlags, MEMPOOL_MODE};
use chia_consensus::owned_conditions::OwnedSpendBundleConditions;
use chia_consensus::run_block_generator::{run_block_generator, run_block_generator2};
use chia_consensus::solution_generator::{calculate_generator_length, solution_generator, solution_generator_backrefs};
use chia_consensus::spendbundle_conditions::run_spendbundle;
use chia_protocol::{Coin, CoinSpend, Program, SpendBundle};
use serde_json::{json, Value};

use crate::eval::EvalResult;

const AMOUNTS: &[u64] = &[0, 1, 0x7f, 0x80, 0xff, 0x100, 0x7fff, 0x8000, 0xffff, 0x1_0000, 0x7f_ffff, 0x80_0000, 0x7fff_ffff, 0x8000_0000,
    0x7f_ffff_ffff, 0x80_0000_0000, 0x7fff_ffff_ffff, 0x8000_0000_0000, 0x7f_ffff_ffff_ffff, 0x80_0000_0000_0000,
    0x7fff_ffff_ffff_ffff, 0x8000_0000_0000_0000, u64::MAX];

fn spend(parent: u8, amount: u64, solution: Vec<u8>) -> CoinSpend {
    let puzzle = [1u8];
    let ph = clvm_utils::tree_hash_atom(&puzzle).to_bytes();
    CoinSpend::new(Coin::new([parent; 32].into(), ph.into(), amount), Program::new(puzzle.as_slice().into()), solution.into())
}
/// solution = list of conditions: ((73 amount) (51 ph out)) serialized by hand
fn solution_for(amount: u64, out: u64) -> Vec<u8> {
    fn atom(b: &[u8]) -> Vec<u8> {
        if b.is_empty() { return vec![0x80]; }
        if b.len() == 1 && b[0] < 0x80 { return vec![b[0]]; }
        let mut v = vec![0x80 | b.len() as u8];
        v.extend_from_slice(b);
        v
    }
    fn canon(v: u64) -> Vec<u8> {
        if v == 0 { return vec![]; }
        let b = v.to_be_bytes();
        let mut i = 0;
        while b[i] == 0 { i += 1; }
        let mut o = vec![];
        if b[i] & 0x80 != 0 { o.push(0); }
        o.extend_from_slice(&b[i..]);
        o
    }
    let mut s = vec![];
    // (73 amount)
    s.extend_from_slice(&[0xff, 0xff, 73, 0xff]); s.extend(atom(&canon(amount))); s.push(0x80);
    // (51 ph out)
    s.extend_from_slice(&[0xff, 0xff, 51, 0xff, 0xa0]); s.extend_from_slice(&[9u8; 32]); s.push(0xff); s.extend(atom(&canon(out))); s.push(0x80);
    s.push(0x80);
    s
}

pub fn bundles() -> Vec<(String, SpendBundle)> {
    let mut v = vec![];
    for a in AMOUNTS {
        v.push((format!("amount-{a:#x}"), SpendBundle::new(vec![spend(1, *a, solution_for(*a, *a / 2))], Signature::default())));
    }
    v.push(("empty".into(), SpendBundle::new(vec![], Signature::default())));
    v.push(("two-spends".into(), SpendBundle::new(vec![spend(1, 1000, solution_for(1000, 10)), spend(2, 0x8000, solution_for(0x8000, 0x7fff))], Signature::default())));
    v.push(("five-similar-spends".into(), SpendBundle::new((1..=5).map(|i| spend(i, 5000, solution_for(5000, 100 + i as u64))).collect(), Signature::default())));
    // bundles whose LAST charged condition is of each cost class (the exact-limit obligations below then sit on that class's test)
    {
        fn atom(b: &[u8]) -> Vec<u8> {
            if b.is_empty() { return vec![0x80]; }
            if b.len() == 1 && b[0] < 0x80 { return vec![b[0]]; }
            let mut v = if b.len() < 0x40 { vec![0x80 | b.len() as u8] } else { vec![0xc0 | (b.len() >> 8) as u8, b.len() as u8] };
            v.extend_from_slice(b);
            v
        }
        fn cond(items: &[Vec<u8>]) -> Vec<u8> { let mut v = vec![0xff]; for (i, it) in items.iter().enumerate() { if i > 0 { v.push(0xff); } v.extend(atom(it)); } v.push(0x80); v }
        fn list(conds: &[Vec<u8>]) -> Vec<u8> { let mut v = vec![]; for c in conds { v.push(0xff); v.extend_from_slice(c); } v.push(0x80); v }
        let ph = clvm_utils::tree_hash_atom(&[1u8]).to_bytes().to_vec();
        let pk = chia_bls::SecretKey::from_seed(&[9; 32]).public_key().to_bytes().to_vec();
        let amt = vec![0x03, 0xe8];
        let my_amount = cond(&[vec![73], amt.clone()]);
        let create = cond(&[vec![51], vec![9u8; 32], vec![100]]);
        let aggsig = cond(&[vec![49], pk.clone(), b"hello".to_vec()]);
        let send = cond(&[vec![66], vec![0b01_0010], b"hi".to_vec(), ph.clone()]);
        let recv = cond(&[vec![67], vec![0b01_0010], b"hi".to_vec(), ph.clone()]);
        v.push(("last-generic".into(), SpendBundle::new(vec![spend(1, 1000, list(&[create.clone(), my_amount.clone()]))], Signature::default())));
        v.push(("last-aggsig".into(), SpendBundle::new(vec![spend(1, 1000, list(&[my_amount.clone(), aggsig]))], Signature::default())));
        v.push(("last-message".into(), SpendBundle::new(vec![spend(1, 1000, list(&[my_amount.clone(), send, recv]))], Signature::default())));
        v.push(("last-create-coin".into(), SpendBundle::new(vec![spend(1, 1000, list(&[my_amount.clone(), create.clone()]))], Signature::default())));
        // one spend with every kind of signature condition (distinct messages), every time lock, birth assertions, a fee and a
        // hinted output: the reported (owned) form must carry each of them in the right place
        {
            let mut conds = vec![];
            for (i, op) in [43u8, 44, 45, 46, 47, 48, 49, 50].iter().enumerate() { conds.push(cond(&[vec![*op], pk.clone(), vec![b'm', i as u8, *op]])); }
            conds.push(cond(&[vec![46], pk.clone(), b"second-46".to_vec()]));
            for (op, v) in [(80u8, vec![5u8]), (81, vec![6]), (82, vec![7]), (83, vec![8]), (84, vec![100]), (85, vec![0x00, 200]), (86, vec![0x01, 0x2c]), (87, vec![0x01, 0x90]), (74, vec![9]), (75, vec![10]), (52, vec![1])] {
                conds.push(cond(&[vec![op], v]));
            }
            // (51 ph 500 (hint)) - the memo list is a nested list: built by hand
            let mut cc = vec![0xff, 51, 0xff]; cc.extend(atom(&[9u8; 32])); cc.push(0xff); cc.extend(atom(&[0x01, 0xf4])); cc.push(0xff);
            cc.push(0xff); cc.extend(atom(&[0x77u8; 32])); cc.push(0x80); cc.push(0x80);
            conds.push(cc);
            conds.push(cond(&[vec![51], vec![8u8; 32], vec![0x01, 0xf3]]));
            v.push(("rich-conditions".into(), SpendBundle::new(vec![spend(1, 1000, list(&conds))], Signature::default())));
        }
        // interning is not symmetric in puzzle and solution here: the solution holds the sub-tree (1), which is also the puzzle
        let remark = cond(&[vec![1]]);
        v.push(("interned-asymmetric".into(), SpendBundle::new(vec![spend(1, 1000, list(&[remark.clone(), my_amount.clone(), create.clone(), remark.clone()]))], Signature::default())));
        // one spend creates two coins for the same puzzle hash (different amounts): both are listed
        v.push(("two-outputs-one-puzzle-hash".into(), SpendBundle::new(vec![spend(1, 1000, list(&[cond(&[vec![51], vec![9u8; 32], vec![100]]), cond(&[vec![51], vec![9u8; 32], vec![101]]), cond(&[vec![51], vec![8u8; 32], vec![100]])]))], Signature::default())));
        // totals above 2^64 (two coins of u64::MAX): conservation is decided on the full sums
        let max = vec![0u8, 0xff, 0xff, 0xff, 0xff, 0xff, 0xff, 0xff, 0xff];
        let max_m1 = vec![0u8, 0xff, 0xff, 0xff, 0xff, 0xff, 0xff, 0xff, 0xfe];
        let out = |ph: u8, amount: &Vec<u8>| cond(&[vec![51], vec![ph; 32], amount.clone()]);
        let fee = |f: u8| cond(&[vec![52], vec![f]]);
        v.push(("above-u64-minting".into(), SpendBundle::new(vec![spend(1, u64::MAX, list(&[out(3, &max)])), spend(2, 10, list(&[out(4, &vec![11])]))], Signature::default())));
        v.push(("above-u64-exact".into(), SpendBundle::new(vec![spend(1, u64::MAX, list(&[out(3, &max), fee(1)])), spend(2, u64::MAX, list(&[out(4, &max_m1)]))], Signature::default())));
        v.push(("above-u64-fee-covered".into(), SpendBundle::new(vec![spend(1, u64::MAX, list(&[out(3, &max), fee(5)])), spend(2, u64::MAX, list(&[]))], Signature::default())));
        v.push(("above-u64-fee-short".into(), SpendBundle::new(vec![spend(1, u64::MAX, list(&[out(3, &max), fee(2)])), spend(2, u64::MAX, list(&[out(4, &max_m1)]))], Signature::default())));
    }
    // the spend-count limit of the mempool mode (LIMIT_SPENDS): 6000 spends are admitted, 6001 are not
    for n in [6000usize, 6001] {
        v.push((format!("spends-{n}"), SpendBundle::new((0..n).map(|i| {
            let mut p = [0u8; 32]; p[0] = (i >> 8) as u8; p[1] = i as u8; p[2] = 0x5a;
            let puzzle = [1u8];
            let ph = clvm_utils::tree_hash_atom(&puzzle).to_bytes();
            CoinSpend::new(Coin::new(p.into(), ph.into(), 1), Program::new(puzzle.as_slice().into()), vec![0x80u8].into())
        }).collect(), Signature::default())));
    }
    // a puzzle using an operator no dialect assigns: (i (15) (q . ()) 1) - the lenient dialect runs it as the identity puzzle
    {
        let puzzle: Vec<u8> = vec![0xff, 0x03, 0xff, 0xff, 0x0f, 0x80, 0xff, 0xff, 0x01, 0x80, 0xff, 0x01, 0x80];
        let mut a = clvmr::Allocator::new();
        let ph: [u8; 32] = clvmr::serde::node_from_bytes(&mut a, &puzzle).map(|p| clvm_utils::tree_hash(&a, p).to_bytes()).unwrap_or([0; 32]);
        v.push(("unknown-operator".into(), SpendBundle::new(vec![
            CoinSpend::new(Coin::new([1; 32].into(), ph.into(), 1000), Program::new(puzzle.into()), solution_for(1000, 10).into())], Signature::default())));
    }
    // a spend whose own assertion fails (rejected everywhere)
    v.push(("wrong-my-amount".into(), SpendBundle::new(vec![spend(1, 1000, solution_for(999, 1))], Signature::default())));
    // a second spend that declares the first one's puzzle hash but reveals another program: (q . ()) - rejected everywhere, in either order
    {
        let ph = clvm_utils::tree_hash_atom(&[1u8]).to_bytes();
        let forged = |parent: u8| CoinSpend::new(Coin::new([parent; 32].into(), ph.into(), 1000), Program::new(vec![0xffu8, 0x01, 0x80].into()), vec![0x80u8].into());
        v.push(("forged-second-reveal".into(), SpendBundle::new(vec![spend(1, 1000, solution_for(1000, 10)), forged(2)], Signature::default())));
        v.push(("forged-first-reveal".into(), SpendBundle::new(vec![forged(2), spend(1, 1000, solution_for(1000, 10))], Signature::default())));
        v.push(("forged-third-reveal".into(), SpendBundle::new(vec![spend(1, 1000, solution_for(1000, 10)), spend(3, 1000, solution_for(1000, 10)), forged(2)], Signature::default())));
    }
    // a coin created and spent in the same bundle, the second spend asserting just that (ASSERT_EPHEMERAL), with and without
    // further plain conditions: no signatures, no messages, no excess value - both spends are dedup candidates
    {
        let puzzle = [1u8];
        let ph = clvm_utils::tree_hash_atom(&puzzle).to_bytes();
        let first = Coin::new([1u8; 32].into(), ph.into(), 1000);
        let child = |amount: u64| Coin::new(first.coin_id(), ph.into(), amount);
        // first spend: (51 ph 600) (51 ph' 400); second spend of the 600 coin: (76) (51 ph'' 600)
        let mut s1 = vec![0xff, 0xff, 51, 0xff, 0xa0]; s1.extend_from_slice(&ph); s1.extend_from_slice(&[0xff, 0x82, 0x02, 0x58, 0x80]);
        s1.extend_from_slice(&[0xff, 0xff, 51, 0xff, 0xa0]); s1.extend_from_slice(&[9u8; 32]); s1.extend_from_slice(&[0xff, 0x82, 0x01, 0x90, 0x80, 0x80]);
        let mut s2 = vec![0xff, 0xff, 76, 0x80];
        s2.extend_from_slice(&[0xff, 0xff, 51, 0xff, 0xa0]); s2.extend_from_slice(&[8u8; 32]); s2.extend_from_slice(&[0xff, 0x82, 0x02, 0x58, 0x80, 0x80]);
        let cs1 = CoinSpend::new(first, Program::new(puzzle.as_slice().into()), s1.clone().into());
        let cs2 = CoinSpend::new(child(600), Program::new(puzzle.as_slice().into()), s2.into());
        v.push(("ephemeral-chain".into(), SpendBundle::new(vec![cs1.clone(), cs2.clone()], Signature::default())));
        v.push(("ephemeral-chain-child-first".into(), SpendBundle::new(vec![cs2, cs1], Signature::default())));
    }
    // minting (rejected everywhere)
    v.push(("minting".into(), SpendBundle::new(vec![spend(1, 1000, solution_for(1000, 1001))], Signature::default())));
    v
}

fn summary(c: &OwnedSpendBundleConditions) -> String {
    // (a spend's created coins come out of a hash set: listed in sorted order)
    let mut per: Vec<String> = c.spends.iter().map(|s| format!("[{} amt={} cc={} created={:?}]", hex::encode(s.coin_id), s.coin_amount, s.condition_cost,
        { let mut v = s.create_coin.iter().map(|(p, a, h)| format!("{}:{a}:{}", hex::encode(p), h.is_some())).collect::<Vec<_>>(); v.sort(); v })).collect();
    per.sort();
    format!("cc={} rem={} add={} fee={} {}", c.condition_cost, c.removal_amount, c.addition_amount, c.reserve_fee, per.join(""))
}

/// the interned size of a generator from its definition: every distinct atom (by content) counts its length + 2, every
/// distinct pair (by the tree below it) counts 3
fn independent_interned_weight(g: &[u8]) -> Option<u64> {
    use clvmr::allocator::{NodePtr, SExp};
    use std::collections::{HashMap, HashSet};
    let mut a = clvmr::Allocator::new();
    let root = clvmr::serde::node_from_bytes_backrefs(&mut a, g).ok()?;
    let mut atoms: HashSet<Vec<u8>> = HashSet::new();
    let mut pairs: HashSet<[u8; 32]> = HashSet::new();
    let mut memo: HashMap<NodePtr, [u8; 32]> = HashMap::new();
    let mut stack: Vec<(NodePtr, bool)> = vec![(root, false)];
    while let Some((n, expanded)) = stack.pop() {
        if memo.contains_key(&n) { continue; }
        match a.sexp(n) {
            SExp::Atom => {
                let bytes = a.atom(n).as_ref().to_vec();
                let mut h = chia_sha2::Sha256::new(); h.update([1u8]); h.update(&bytes);
                memo.insert(n, h.finalize());
                atoms.insert(bytes);
            }
            SExp::Pair(l, r) => {
                if expanded {
                    let (hl, hr) = (memo.get(&l)?, memo.get(&r)?);
                    let mut h = chia_sha2::Sha256::new(); h.update([2u8]); h.update(hl); h.update(hr);
                    let d: [u8; 32] = h.finalize();
                    memo.insert(n, d);
                    pairs.insert(d);
                } else {
                    stack.push((n, true)); stack.push((l, false)); stack.push((r, false));
                }
            }
        }
    }
    Some(atoms.iter().map(|x| x.len() as u64 + 2).sum::<u64>() + 3 * pairs.len() as u64)
}

pub fn check_bundle(name: &str, b: &SpendBundle, interned: bool, strict: bool) -> (u64, Vec<(String, String)>) {
    let max = TEST_CONSTANTS.max_block_cost_clvm;
    let cpb = TEST_CONSTANTS.cost_per_byte;
    // strict: the mempool's flag set; otherwise the flags of block validation (the puzzles then run in the lenient dialect on
    // BOTH paths: run_spendbundle takes its dialect from the flags it is given, like run_block_generator2)
    let mut flags = if strict { MEMPOOL_MODE | ConsensusFlags::DONT_VALIDATE_SIGNATURE } else { ConsensusFlags::DONT_VALIDATE_SIGNATURE };
    if interned { flags |= ConsensusFlags::INTERNED_GENERATOR; }
    let tag = match (strict, interned) { (true, false) => "plain-flags", (true, true) => "interned", (false, false) => "consensus-flags", (false, true) => "consensus-interned" };
    let mut n = 0u64;
    let mut fails = vec![];
    let mut a = make_allocator(ConsensusFlags::LIMIT_HEAP);
    let mem = run_spendbundle(&mut a, b, max, flags, &TEST_CONSTANTS).map(|(c, _)| OwnedSpendBundleConditions::from(&a, c));
    let blocks: [&[u8]; 0] = [];
    let spends_iter = || b.coin_spends.iter().map(|s| (s.coin, s.puzzle_reveal.as_ref(), s.solution.as_ref()));
    let mut gens: Vec<(&str, Vec<u8>)> = vec![];
    if let Ok(g) = solution_generator(spends_iter()) {
        n += 1;
        let predicted = calculate_generator_length(&b.coin_spends);
        if predicted != g.len() { fails.push((format!("{name}/{tag}/predicted-length"), format!("calculate_generator_length = {predicted}, solution_generator emits {} bytes", g.len()))); }
        gens.push(("plain", g));
    }
    if let Ok(g) = solution_generator_backrefs(spends_iter()) { gens.push(("backrefs", g)); }
    if !interned {
        if let Ok(mut bb) = BlockBuilder::new() {
            if let Ok((true, _)) = bb.add_spend_bundles([b], 0, &TEST_CONSTANTS) {
                if let Ok((g, _, _)) = bb.finalize(&TEST_CONSTANTS) { gens.push(("compressed-builder", g)); }
            }
        }
    } else {
        let mut ib = InternedBlockBuilder::new(&TEST_CONSTANTS);
        if let Ok((true, _)) = ib.add_spend_bundles([b], 0) {
            if let Ok((g, _, _)) = ib.finalize() { gens.push(("interned-builder", g)); }
        }
    }
    // verdicts the rules prescribe for the mempool path
    for (bn, want) in [("spends-6000", true), ("spends-6001", false), ("amount-0x8000000000000000", true), ("amount-0xffffffffffffffff", true),
                       ("two-spends", true), ("wrong-my-amount", false), ("forged-second-reveal", false), ("forged-first-reveal", false), ("forged-third-reveal", false),
                       ("above-u64-minting", false), ("above-u64-exact", true), ("above-u64-fee-covered", true), ("above-u64-fee-short", false), ("interned-asymmetric", true), ("two-outputs-one-puzzle-hash", true), ("rich-conditions", true), ("ephemeral-chain", true), ("ephemeral-chain-child-first", true), ("minting", false), ("empty", true),
                       ("last-generic", true), ("last-aggsig", true), ("last-message", true), ("last-create-coin", true)] {
        if name == bn && strict {
            n += 1;
            if mem.is_ok() != want { fails.push((format!("{name}/{tag}/mempool-verdict"), format!("run_spendbundle accepted = {}, the rules say {want}", mem.is_ok()))); }
        }
    }
    if name == "unknown-operator" {
        // an operator the lenient dialect tolerates and the strict one refuses: the verdict follows the flags given
        n += 1;
        if mem.is_ok() == strict { fails.push((format!("{name}/{tag}/dialect-verdict"), format!("run_spendbundle accepted = {} with {} flags", mem.is_ok(), if strict { "mempool" } else { "block-validation" }))); }
    }
    // the owned (reported) form says, field by field, what the parsed conditions say
    if mem.is_ok() {
        n += 1;
        let mut a5 = make_allocator(ConsensusFlags::LIMIT_HEAP);
        if let Ok((raw, _)) = run_spendbundle(&mut a5, b, max, flags, &TEST_CONSTANTS) {
            let pkm = |a: &clvmr::Allocator, l: &Vec<(chia_bls::PublicKey, clvmr::NodePtr)>| -> String { l.iter().map(|(k, m)| format!("{}:{}", hex::encode(k.to_bytes()), hex::encode(a.atom(*m).as_ref()))).collect::<Vec<_>>().join(",") };
            let opkm = |l: &Vec<(chia_bls::PublicKey, chia_protocol::Bytes)>| -> String { l.iter().map(|(k, m)| format!("{}:{}", hex::encode(k.to_bytes()), hex::encode(m.as_ref()))).collect::<Vec<_>>().join(",") };
            let raw_desc: Vec<String> = raw.spends.iter().map(|s| {
                let mut cc: Vec<String> = s.create_coin.iter().map(|c| format!("{}:{}:{}", hex::encode(c.puzzle_hash), c.amount, if c.hint == a5.nil() { "-".to_string() } else { hex::encode(a5.atom(c.hint).as_ref()) })).collect();
                cc.sort();
                format!("id={} par={} ph={} amt={} hr={:?} sr={:?} bhr={:?} bsr={:?} bh={:?} bs={:?} cc=[{}] me=[{}] parent=[{}] puzzle=[{}] amount=[{}] pa=[{}] para=[{}] parp=[{}] flags={} ec={} cond={} fp={}",
                    hex::encode(*s.coin_id), hex::encode(a5.atom(s.parent_id).as_ref()), hex::encode(a5.atom(s.puzzle_hash).as_ref()), s.coin_amount,
                    s.height_relative, s.seconds_relative, s.before_height_relative, s.before_seconds_relative, s.birth_height, s.birth_seconds, cc.join(","),
                    pkm(&a5, &s.agg_sig_me), pkm(&a5, &s.agg_sig_parent), pkm(&a5, &s.agg_sig_puzzle), pkm(&a5, &s.agg_sig_amount), pkm(&a5, &s.agg_sig_puzzle_amount),
                    pkm(&a5, &s.agg_sig_parent_amount), pkm(&a5, &s.agg_sig_parent_puzzle), s.flags, s.execution_cost, s.condition_cost,
                    if s.flags & chia_consensus::conditions::ELIGIBLE_FOR_DEDUP != 0 { hex::encode(s.fingerprint) } else { String::new() })
            }).collect();
            let raw_bundle = format!("fee={} ha={} sa={} bha={:?} bsa={:?} unsafe=[{}] cost={} rem={} add={} vs={} ec={} cond={}", raw.reserve_fee, raw.height_absolute, raw.seconds_absolute,
                raw.before_height_absolute, raw.before_seconds_absolute, pkm(&a5, &raw.agg_sig_unsafe), raw.cost, raw.removal_amount, raw.addition_amount, raw.validated_signature, raw.execution_cost, raw.condition_cost);
            let o = OwnedSpendBundleConditions::from(&a5, raw);
            let own_desc: Vec<String> = o.spends.iter().map(|s| {
                let mut cc: Vec<String> = s.create_coin.iter().map(|c| format!("{}:{}:{}", hex::encode(c.0), c.1, match &c.2 { None => "-".to_string(), Some(h) => hex::encode(h.as_ref()) })).collect();
                cc.sort();
                format!("id={} par={} ph={} amt={} hr={:?} sr={:?} bhr={:?} bsr={:?} bh={:?} bs={:?} cc=[{}] me=[{}] parent=[{}] puzzle=[{}] amount=[{}] pa=[{}] para=[{}] parp=[{}] flags={} ec={} cond={} fp={}",
                    hex::encode(s.coin_id), hex::encode(s.parent_id), hex::encode(s.puzzle_hash), s.coin_amount,
                    s.height_relative, s.seconds_relative, s.before_height_relative, s.before_seconds_relative, s.birth_height, s.birth_seconds, cc.join(","),
                    opkm(&s.agg_sig_me), opkm(&s.agg_sig_parent), opkm(&s.agg_sig_puzzle), opkm(&s.agg_sig_amount), opkm(&s.agg_sig_puzzle_amount),
                    opkm(&s.agg_sig_parent_amount), opkm(&s.agg_sig_parent_puzzle), s.flags, s.execution_cost, s.condition_cost, hex::encode(s.fingerprint.as_ref()))
            }).collect();
            let own_bundle = format!("fee={} ha={} sa={} bha={:?} bsa={:?} unsafe=[{}] cost={} rem={} add={} vs={} ec={} cond={}", o.reserve_fee, o.height_absolute, o.seconds_absolute,
                o.before_height_absolute, o.before_seconds_absolute, opkm(&o.agg_sig_unsafe), o.cost, o.removal_amount, o.addition_amount, o.validated_signature, o.execution_cost, o.condition_cost);
            if raw_desc != own_desc || raw_bundle != own_bundle {
                let which = raw_desc.iter().zip(own_desc.iter()).position(|(x, y)| x != y);
                fails.push((format!("{name}/{tag}/owned-fields"), format!("the reported (owned) conditions differ from the parsed ones: {}", match which { Some(i) => format!("spend #{i}: parsed {} ; reported {}", raw_desc[i], own_desc[i]), None => format!("bundle: parsed {raw_bundle} ; reported {own_bundle}") })));
            }
        }
    }
    // C02: the owned (reported) form lists every created coin: as many as the parsed conditions hold, adding up to addition_amount
    if let Ok(m) = &mem {
        n += 1;
        let listed: u128 = m.spends.iter().flat_map(|s| s.create_coin.iter().map(|c| c.1 as u128)).sum();
        let mut a4 = make_allocator(ConsensusFlags::LIMIT_HEAP);
        let raw_count: Option<usize> = run_spendbundle(&mut a4, b, max, flags, &TEST_CONSTANTS).ok().map(|(c, _)| c.spends.iter().map(|s| s.create_coin.len()).sum());
        let count: usize = m.spends.iter().map(|s| s.create_coin.len()).sum();
        if listed != m.addition_amount || raw_count != Some(count) {
            fails.push((format!("{name}/{tag}/owned-outputs"), format!("the reported conditions list {count} created coins worth {listed}; parsed: {raw_count:?} coins, addition_amount {}", m.addition_amount)));
        }
    }
    // C02: every reported spend is the coin (parent, tree hash of the REVEALED puzzle, amount) of one coin spend of the bundle
    if let Ok(m) = &mem {
        n += 1;
        let mut want: Vec<(Vec<u8>, Vec<u8>, u64)> = b.coin_spends.iter().map(|cs| {
            let mut a3 = make_allocator(ConsensusFlags::LIMIT_HEAP);
            let ph: [u8; 32] = match clvmr::serde::node_from_bytes(&mut a3, cs.puzzle_reveal.as_slice()) { Ok(p) => clvm_utils::tree_hash(&a3, p).to_bytes(), Err(_) => [0xee; 32] };
            (Coin::new(cs.coin.parent_coin_info, ph.into(), cs.coin.amount).coin_id().to_vec(), ph.to_vec(), cs.coin.amount)
        }).collect();
        let mut got: Vec<(Vec<u8>, Vec<u8>, u64)> = m.spends.iter().map(|s| (s.coin_id.to_vec(), s.puzzle_hash.to_vec(), s.coin_amount)).collect();
        want.sort(); got.sort();
        if want != got { fails.push((format!("{name}/{tag}/spend-identity"), "the reported (coin id, puzzle hash, amount) triples are not those of the revealed puzzles".to_string())); }
    }
    // C04: the limit is exact - a budget equal to the cost passes, one less fails - on both paths
    if let Ok(m) = &mem {
        for (fl_name, extra) in [("", ConsensusFlags::empty()), ("+cost-conditions", ConsensusFlags::COST_CONDITIONS)] {
            let fl = flags | extra;
            let mut a0 = make_allocator(ConsensusFlags::LIMIT_HEAP);
            let c = match run_spendbundle(&mut a0, b, max, fl, &TEST_CONSTANTS) { Ok((c, _)) => c.cost, Err(_) => continue };
            let _ = m;
            n += 1;
            let mut a1 = make_allocator(ConsensusFlags::LIMIT_HEAP);
            let at = run_spendbundle(&mut a1, b, c, fl, &TEST_CONSTANTS).map(|x| x.0.cost);
            let mut a2 = make_allocator(ConsensusFlags::LIMIT_HEAP);
            let below = if c > 0 { run_spendbundle(&mut a2, b, c - 1, fl, &TEST_CONSTANTS).is_ok() } else { false };
            if at.as_ref().ok() != Some(&c) || below {
                fails.push((format!("{name}/{tag}{fl_name}/mempool-exact-limit"), format!("cost {c}: with a budget of exactly {c} run_spendbundle gives {:?}; with {} it accepts = {below}", at.map_err(|e| format!("{e:?}")), c.saturating_sub(1))));
            }
            // ... and every smaller budget fails with cost-exceeded, not with some other error: just below the total, where the
            // last charge fails; well inside, where a puzzle runs out while executing; and almost nothing
            let smaller = |c: u64| -> Vec<u64> { let mut v = vec![c.saturating_sub(1), c - c / 3, c / 2, c.saturating_sub(450_201), c.saturating_sub(1_200_001), 1]; v.retain(|l| *l > 0 && *l < c); v.sort(); v.dedup(); v };
            let kind = |e: &chia_consensus::validation_error::ValidationErr| e.error_code() == chia_consensus::validation_error::ErrorCode::CostExceeded;
            n += 1;
            for l in smaller(c) {
                let mut a3 = make_allocator(ConsensusFlags::LIMIT_HEAP);
                match run_spendbundle(&mut a3, b, l, fl, &TEST_CONSTANTS) {
                    Err(e) if kind(&e) => {}
                    other => { fails.push((format!("{name}/{tag}{fl_name}/mempool-smaller-limit"), format!("cost {c}: with a budget of {l} run_spendbundle gives {:?}, not cost-exceeded", other.map(|x| x.0.cost).map_err(|e| format!("{e:?}"))))); break; }
                }
            }
            if let Ok(g) = solution_generator(spends_iter()) {
                if let Ok((_, k)) = run_block_generator2(&g, blocks, max, fl, &Signature::default(), None, &TEST_CONSTANTS) {
                    n += 1;
                    for l in smaller(k.cost) {
                        match run_block_generator2(&g, blocks, l, fl, &Signature::default(), None, &TEST_CONSTANTS) {
                            Err(e) if kind(&e) => {}
                            other => { fails.push((format!("{name}/{tag}{fl_name}/block-smaller-limit"), format!("cost {}: with a budget of {l} run_block_generator2 gives {:?}, not cost-exceeded", k.cost, other.map(|x| x.1.cost).map_err(|e| format!("{e:?}"))))); break; }
                        }
                    }
                }
                if !interned {
                    if let Ok((_, k)) = run_block_generator(&g, blocks, max, fl, &Signature::default(), None, &TEST_CONSTANTS) {
                        n += 1;
                        for l in smaller(k.cost) {
                            match run_block_generator(&g, blocks, l, fl, &Signature::default(), None, &TEST_CONSTANTS) {
                                Err(e) if kind(&e) => {}
                                other => { fails.push((format!("{name}/{tag}{fl_name}/legacy-smaller-limit"), format!("cost {}: with a budget of {l} run_block_generator gives {:?}, not cost-exceeded", k.cost, other.map(|x| x.1.cost).map_err(|e| format!("{e:?}"))))); break; }
                            }
                        }
                    }
                }
            }
            if let Ok(g) = solution_generator(spends_iter()) {
                if let Ok((_, k)) = run_block_generator2(&g, blocks, max, fl, &Signature::default(), None, &TEST_CONSTANTS) {
                    n += 1;
                    let c2 = k.cost;
                    let at2 = run_block_generator2(&g, blocks, c2, fl, &Signature::default(), None, &TEST_CONSTANTS).map(|x| x.1.cost);
                    let below2 = run_block_generator2(&g, blocks, c2 - 1, fl, &Signature::default(), None, &TEST_CONSTANTS).is_ok();
                    if at2.as_ref().ok() != Some(&c2) || below2 {
                        fails.push((format!("{name}/{tag}{fl_name}/block-exact-limit"), format!("cost {c2}: with a budget of exactly {c2} run_block_generator2 gives {:?}; with {} it accepts = {below2}", at2.map_err(|e| format!("{e:?}")), c2 - 1)));
                    }
                }
                // the legacy driver (generator run through the ROM, conditions parsed afterwards) shares the one budget the same way
                if !interned {
                    if let Ok((_, k)) = run_block_generator(&g, blocks, max, fl, &Signature::default(), None, &TEST_CONSTANTS) {
                        n += 1;
                        let c3 = k.cost;
                        let at3 = run_block_generator(&g, blocks, c3, fl, &Signature::default(), None, &TEST_CONSTANTS).map(|x| x.1.cost);
                        let below3 = run_block_generator(&g, blocks, c3 - 1, fl, &Signature::default(), None, &TEST_CONSTANTS).is_ok();
                        if at3.as_ref().ok() != Some(&c3) || below3 {
                            fails.push((format!("{name}/{tag}{fl_name}/legacy-exact-limit"), format!("cost {c3}: with a budget of exactly {c3} run_block_generator gives {:?}; with {} it accepts = {below3}", at3.map_err(|e| format!("{e:?}")), c3 - 1)));
                        }
                    }
                }
            }
        }
    }
    // asking the mempool path for puzzle fingerprints (COMPUTE_FINGERPRINT) changes nothing else: the same verdict and the same
    // conditions as without the flag - and hence as the block path under the same flags, which never computes fingerprints
    if strict {
        n += 1;
        let mut a6 = make_allocator(ConsensusFlags::LIMIT_HEAP);
        let with_fp = run_spendbundle(&mut a6, b, max, flags | ConsensusFlags::COMPUTE_FINGERPRINT, &TEST_CONSTANTS).map(|(c, _)| OwnedSpendBundleConditions::from(&a6, c));
        let id = format!("{name}/{tag}/fingerprint-flag");
        match (&mem, &with_fp) {
            (Ok(m), Ok(k)) => {
                if summary(m) != summary(k) || m.cost != k.cost { fails.push((id, format!("conditions differ once fingerprints are requested: {} cost {} vs {} cost {}", summary(m), m.cost, summary(k), k.cost))); }
                else {
                    // a fingerprint is reported exactly for the spends flagged dedup-eligible
                    for sp in &k.spends {
                        let flagged = sp.flags & chia_consensus::conditions::ELIGIBLE_FOR_DEDUP != 0;
                        if flagged == sp.fingerprint.is_empty() { fails.push((id.clone(), format!("spend {}: dedup flag = {flagged}, fingerprint of {} bytes", hex::encode(sp.coin_id), sp.fingerprint.len()))); break; }
                    }
                }
            }
            (Err(_), Err(_)) => {}
            (Ok(_), Err(e)) => fails.push((id, format!("accepted without COMPUTE_FINGERPRINT, rejected with it: {e:?}"))),
            (Err(e), Ok(_)) => fails.push((id, format!("rejected without COMPUTE_FINGERPRINT ({e:?}), accepted with it"))),
        }
    }
    // (a generator carries parent, puzzle, amount, solution - not the declared puzzle hash - so a bundle whose declared hash is wrong has no
    // block-path counterpart: the comparison is skipped for those)
    for (gname, g) in &gens {
        if name.starts_with("forged-") { continue; }
        n += 1;
        let blk = run_block_generator2(g, blocks, max, flags, &Signature::default(), None, &TEST_CONSTANTS).map(|(a2, c)| OwnedSpendBundleConditions::from(&a2, c));
        let id = format!("{name}/{tag}/{gname}");
        // under INTERNED_GENERATOR the size part of the reported cost is the generator's interned weight, computed here from
        // its definition (distinct atoms: length + 2 each, distinct pairs: 3 each), times cost_per_byte
        if interned && b.coin_spends.len() <= 10 {
            if let (Ok(k), Some(w)) = (&blk, independent_interned_weight(g)) {
                n += 1;
                let size = k.cost - k.execution_cost - k.condition_cost;
                if size != w * cpb { fails.push((format!("{id}/interned-weight"), format!("size cost {size} (cost {} - execution {} - conditions {}) is not the interned weight {w} x {cpb}", k.cost, k.execution_cost, k.condition_cost))); }
            }
        }
        match (&mem, &blk) {
            (Ok(m), Ok(k)) => {
                if summary(m) != summary(k) { fails.push((id, format!("conditions differ: mempool {} vs block {}", summary(m), summary(k)))); }
                else if *gname == "plain" && !interned && k.cost != m.cost + 20 + 2 * cpb {
                    fails.push((id, format!("plain generator cost {} is not mempool cost {} + quote overhead {}", k.cost, m.cost, 20 + 2 * cpb)));
                } else if *gname == "plain" && interned && k.cost != m.cost + 20 {
                    fails.push((id, format!("interned generator cost {} is not mempool cost {} + quote execution cost 20", k.cost, m.cost)));
                }
            }
            (Err(_), Err(_)) => {}
            (Ok(_), Err(e)) => fails.push((id, format!("mempool path accepts, block path rejects: {e:?}"))),
            (Err(e), Ok(_)) => fails.push((id, format!("mempool path rejects ({e:?}), block path accepts"))),
        }
    }
    (n, fails)
}

/// bundles that are also compared under block-validation flags (no MEMPOOL_MODE)
const CONSENSUS_MODE_BUNDLES: &[&str] = &["unknown-operator", "two-spends", "amount-0x8000000000000000", "last-aggsig", "last-message", "empty", "wrong-my-amount", "spends-6001"];

pub fn paths_ground() -> EvalResult {
    let mut res = EvalResult { obligations: 0, discharged: 0, failures: vec![], samples: vec![], exhaustive: true };
    let handles: Vec<_> = bundles().into_iter().map(|(name, b)| std::thread::spawn(move || {
        let mut n = 0; let mut f = vec![];
        for interned in [false, true] { let (k, ff) = check_bundle(&name, &b, interned, true); n += k; f.extend(ff); }
        if CONSENSUS_MODE_BUNDLES.contains(&name.as_str()) {
            for interned in [false, true] { let (k, ff) = check_bundle(&name, &b, interned, false); n += k; f.extend(ff); }
        }
        (n, f)
    })).collect();
    for h in handles {
        let (n, fails) = h.join().unwrap_or((0, vec![]));
        res.obligations += n;
        res.discharged += n - (fails.len() as u64).min(n);
        for (id, m) in fails {
            if res.failures.len() < 6 {
                let name = id.split('/').next().unwrap_or("").to_string();
                res.failures.push(json!({"id": format!("paths_ground/{id}"), "function": "run_spendbundle / run_block_generator2", "message": format!("bundle {id}: {m}"),
                    "clause": "mempool path == block path (verdict, conditions), cost offset == quote overhead, predicted length == actual length",
                    "cex": {"unit": "eval", "function": "paths_ground", "input": {"bundle": name, "id": id}}}));
            }
        }
    }
    res.samples.push(json!({"obligation": format!("{} ground comparisons: {} bundles (coin amounts at every canonical-length boundary, 0/1/2/5 spends, rejected bundles) x {{plain, back-reference, builder}} generators x {{without, with}} INTERNED_GENERATOR", res.obligations, bundles().len()), "backend": "native-eval"}));
    res
}

pub fn replay_paths(input: &Value) -> (bool, String) {
    let want = input["bundle"].as_str().unwrap_or("");
    let id = input["id"].as_str().unwrap_or("");
    for (name, b) in bundles() {
        if name == want {
            for strict in [true, false] {
                for interned in [false, true] {
                    let (_, fails) = check_bundle(&name, &b, interned, strict);
                    for (fid, m) in fails { if fid == id { return (true, format!("bundle {fid}: {m}")); } }
                }
            }
            return (false, format!("bundle {want}: paths agree"));
        }
    }
    (false, "unknown bundle".into())
}
