//! Lists every `#[streamable]` type declared in /repo/crates/chia-protocol/src (mechanically, on every build) so that the
//! round-trip ground task covers whatever the repository declares now.
use std::{env, fs, path::Path};
fn main() {
    let dir = Path::new("/repo/crates/chia-protocol/src");
    println!("cargo:rerun-if-changed={}", dir.display());
    let mut names: Vec<String> = vec![];
    let mut files: Vec<_> = fs::read_dir(dir).expect("chia-protocol sources").filter_map(|e| e.ok()).map(|e| e.path()).collect();
    files.sort();
    for f in files {
        if f.extension().and_then(|x| x.to_str()) != Some("rs") { continue; }
        println!("cargo:rerun-if-changed={}", f.display());
        let text = fs::read_to_string(&f).unwrap_or_default();
        let lines: Vec<&str> = text.lines().collect();
        for (i, l) in lines.iter().enumerate() {
            if !l.trim_start().starts_with("#[streamable") { continue; }
            for l2 in lines.iter().skip(i + 1).take(6) {
                let t = l2.trim_start();
                let rest = t.strip_prefix("pub struct ").or_else(|| t.strip_prefix("pub enum "));
                if let Some(r) = rest {
                    let name: String = r.chars().take_while(|c| c.is_alphanumeric() || *c == '_').collect();
                    if !name.is_empty() && !r[name.len()..].trim_start().starts_with('<') { names.push(name); }
                    break;
                }
            }
        }
    }
    names.sort(); names.dedup();
    let out = Path::new(&env::var("OUT_DIR").unwrap()).join("streamable_types.rs");
    fs::write(out, format!("rt_types!{{ {} }}\n", names.join(", "))).unwrap();
}
