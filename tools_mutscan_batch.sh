#!/bin/bash
cd /verif
C=crates/chia-consensus/src
run() { echo "=== $*"; ./tools_mutscan.py "$@" 2>&1 | grep -E "SURVIVED|TOTAL"; }
run drivers run_spendbundle $C/spendbundle_conditions.rs fn:run_spendbundle
run drivers calculate_base_cost $C/spendbundle_conditions.rs fn:calculate_base_cost
run drivers run_block_generator2 $C/run_block_generator.rs fn:run_block_generator2
run drivers parse_spends $C/conditions.rs fn:parse_spends
run fast_forward fast_forward_singleton $C/fast_forward.rs fn:fast_forward_singleton
run fingerprint compute_puzzle_fingerprint $C/puzzle_fingerprint.rs fn:compute_puzzle_fingerprint
run fingerprint hash_atom_list $C/puzzle_fingerprint.rs fn:hash_atom_list
run merkle_tree generate_proof_impl $C/merkle_tree.rs "impl:MerkleSet#1::fn:generate_proof_impl"
run merkle_tree validate_merkle_proof $C/merkle_tree.rs fn:validate_merkle_proof
run sig_paths validate_signature $C/conditions.rs fn:validate_signature
run sig_paths validate_clvm_and_signature $C/spendbundle_validation.rs fn:validate_clvm_and_signature
run validate_conds is_ephemeral $C/conditions.rs fn:is_ephemeral
run costs subtract_cost $C/run_block_generator.rs fn:subtract_cost
run time_locks check_time_locks $C/check_time_locks.rs fn:check_time_locks
run trusted_lookup get_puzzle_and_solution_for_coin $C/get_puzzle_and_solution.rs fn:get_puzzle_and_solution_for_coin
run trusted_lookup parse_coin_spend $C/get_puzzle_and_solution.rs fn:parse_coin_spend
run aggsig make_aggsig_final_message $C/make_aggsig_final_message.rs fn:make_aggsig_final_message
run aggsig check_agg_sig_unsafe_message $C/conditions.rs fn:check_agg_sig_unsafe_message
run aggsig to_key $C/conditions.rs fn:to_key
run int_encoders u64_to_bytes $C/make_aggsig_final_message.rs fn:u64_to_bytes
run int_encoders sanitize_uint $C/sanitize_int.rs fn:sanitize_uint
run generator_len calculate_generator_length $C/solution_generator.rs fn:calculate_generator_length
run generator_len clvm_bytes_len $C/solution_generator.rs fn:clvm_bytes_len
run builders add_spend_bundles $C/build_compressed_block.rs "impl:BlockBuilder#1::fn:add_spend_bundles"
run builders finalize $C/build_compressed_block.rs "impl:BlockBuilder#1::fn:finalize"
run mempool_visitor MempoolVisitor::condition $C/conditions.rs "impl:SpendVisitor for MempoolVisitor::fn:condition"
run mempool_visitor MempoolVisitor::post_spend $C/conditions.rs "impl:SpendVisitor for MempoolVisitor::fn:post_spend"
run mempool_visitor MempoolVisitor::new_spend $C/conditions.rs "impl:SpendVisitor for MempoolVisitor::fn:new_spend"
run merkle_set radix_sort $C/merkle_set.rs fn:radix_sort
run merkle_set compute_merkle_set_root $C/merkle_set.rs fn:compute_merkle_set_root
run bls_cache put crates/chia-bls/src/bls_cache.rs "impl:BlsCacheData::fn:put"
run bls_cache pair_one crates/chia-bls/src/bls_cache.rs "impl:BlsCache#1::fn:aggregate_verify"
run blob_cache upsert crates/chia-datalayer/src/merkle/blob.rs "impl:MerkleBlob#1::fn:upsert"
run blob_cache remove_leaf crates/chia-datalayer/src/merkle/blob.rs "impl:BlockStatusCache::fn:remove_leaf"
run blob_cache add_leaf crates/chia-datalayer/src/merkle/blob.rs "impl:BlockStatusCache::fn:add_leaf"
run blob_cache valid crates/chia-datalayer/src/merkle/proof_of_inclusion.rs "impl:ProofOfInclusion#1::fn:valid"
run tree_hash tree_hash crates/clvm-utils/src/tree_hash.rs fn:tree_hash
run tree_hash tree_hash_cached crates/clvm-utils/src/tree_hash.rs fn:tree_hash_cached
run curry curry_tree_hash crates/clvm-utils/src/curry_tree_hash.rs fn:curry_tree_hash
run conditions_parse parse_args $C/conditions.rs fn:parse_args 60
