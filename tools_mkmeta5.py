import json, os, re, sys
crates = {"C02-9":"chia-protocol chia-consensus","C02-10":"chia-protocol chia-consensus","C09-9":"chia-protocol chia-consensus","C09-10":"chia-protocol chia-consensus","C14-9":"chia-traits chia-protocol","C14-10":"chia-traits chia-protocol"}
caught = json.load(open(sys.argv[1]))
for sid,(txt,first) in caught.items():
    d=os.path.join("/verif/seeded",sid)
    notes=open(os.path.join(d,"notes.md")).read().splitlines()
    title=next((l.lstrip("# ").strip() for l in notes if l.strip()), sid)
    files=re.findall(r"^\+\+\+ b/(\S+)", open(os.path.join(d,"patch.diff")).read(), re.M)
    prop=sid.split("-")[0]
    meta={"property":prop,"summary":title,"files":files,"crates":crates.get(sid,"chia-consensus"),
      "confirmed_by_me":"tools_seed_a.sh in the agent's scratch worktree: demo passes on clean HEAD, fails with patch.diff; the touched crates' existing tests pass with patch.diff",
      "ran":f"git -C /repo apply patch.diff; ./check {prop}; git -C /repo checkout -- .  (or the same on the snapshot pipeline)",
      "result":"detected","first_run":first,"caught_by":txt,"round":5}
    json.dump(meta,open(os.path.join(d,"meta.json"),"w"),indent=1)
print(len(caught))
