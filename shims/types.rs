// ---- shims/types.rs : declarations of chia base types used by several units --------------
// Real declarations (BytesImpl, Bytes, Coin, CoinRecord, ...) are extracted from /repo by the
// unit templates; here are only the foreign ones.

// chia_bls::PublicKey wraps a blst_p1 (foreign C struct): opaque.
#[verifier::external_body]
#[derive(Clone, Copy)]
pub struct PublicKey { _p: [u8; 0] }

// identity conversion `T::from(t: T)` (core blanket impl)
pub assume_specification<T> [ <T as core::convert::From<T>>::from ] (t: T) -> (r: T)
    ensures r == t;
