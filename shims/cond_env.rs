// ---- shims/cond_env.rs : std / chia-bls / chia-protocol pieces used by conditions.rs effects (ASSUMED contracts) ----

/// std HashMap / HashSet used as bookkeeping in ParseState: insertion-only maps/sets with value identity on keys
#[verifier::external_body]
#[verifier::reject_recursive_types(T)]
pub struct OSet<T> { _p: core::marker::PhantomData<T> }
impl<T> OSet<T> {
    uninterp spec fn view(&self) -> Set<T>;
    #[verifier::external_body]
    fn insert(&mut self, t: T) -> (r: bool)
        ensures final(self)@ == old(self)@.insert(t), r == !old(self)@.contains(t),
    { unimplemented!() }
}
#[verifier::external_body]
#[verifier::reject_recursive_types(K)]
#[verifier::reject_recursive_types(V)]
pub struct OMap<K, V> { _p: core::marker::PhantomData<(K, V)> }
impl<K, V> OMap<K, V> {
    uninterp spec fn view(&self) -> Map<K, V>;
    #[verifier::external_body]
    fn insert(&mut self, k: K, v: V) -> (r: Option<V>)
        ensures final(self)@ == old(self)@.insert(k, v), r is Some <==> old(self)@.contains_key(k),
    { unimplemented!() }
}

/// HashSet<NewCoin>: NewCoin's PartialEq/Hash identify a coin by (puzzle_hash, amount) only (the hint is not part of
/// the identity); the set is modelled on that identity
#[verifier::external_body]
pub struct NewCoinSet { _p: [u8; 0] }
impl NewCoinSet {
    uninterp spec fn view(&self) -> Set<(Seq<u8>, u64)>;
    #[verifier::external_body]
    fn new() -> (r: NewCoinSet)
        ensures r@ == Set::<(Seq<u8>, u64)>::empty(),
    { unimplemented!() }
    #[verifier::external_body]
    fn insert(&mut self, c: NewCoin) -> (r: bool)
        ensures
            r == !old(self)@.contains((c.puzzle_hash.0@, c.amount)),
            final(self)@ == old(self)@.insert((c.puzzle_hash.0@, c.amount)),
    { unimplemented!() }
}

// chia_bls::PublicKey wraps a blst_p1 (foreign C struct): opaque
#[verifier::external_body]
pub struct PublicKey { _p: [u8; 0] }

// conversions of chia_protocol::BytesImpl<32> / Bytes
#[verifier::external_body]
fn shim_bytes32_from_arr(a: [u8; 32]) -> (r: BytesImpl<32>)
    ensures r.0 == a,
{ unimplemented!() }
/// `slice.try_into().unwrap()` into a Bytes32: panics unless the slice has 32 bytes
#[verifier::external_body]
fn shim_bytes32_from_slice(s: &[u8]) -> (r: BytesImpl<32>)
    requires s@.len() == 32,
    ensures r.0@ == s@,
{ unimplemented!() }
#[verifier::external_body]
fn shim_bytes_from_vec(v: Vec<u8>) -> (r: Bytes)
    ensures r.0@ == v@,
{ unimplemented!() }
#[verifier::external_body]
fn shim_slice_to_vec(s: &[u8]) -> (r: Vec<u8>)
    ensures r@ == s@,
{ unimplemented!() }

impl<const N: usize> BytesImpl<N> {
    /// AsRef<[u8]>::as_ref / Deref
    #[verifier::external_body]
    fn as_ref(&self) -> (r: &[u8])
        ensures r@ == self.0@,
    { unimplemented!() }
}

/// std::cmp::{max, min} on the integer types used by the lock folding (std's generic functions over Ord; ASSUMED to
/// be the usual maximum / minimum)
pub trait OrdInt: Copy {
    spec fn as_int(self) -> int;
    fn le(self, o: Self) -> (r: bool)
        ensures r == (self.as_int() <= o.as_int());
}
impl OrdInt for u32 {
    closed spec fn as_int(self) -> int { self as int }
    fn le(self, o: u32) -> (r: bool) { self <= o }
}
impl OrdInt for u64 {
    closed spec fn as_int(self) -> int { self as int }
    fn le(self, o: u64) -> (r: bool) { self <= o }
}
fn max<T: OrdInt>(a: T, b: T) -> (r: T)
    ensures r == (if a.as_int() >= b.as_int() { a } else { b }),
{ if b.le(a) { a } else { b } }
fn min<T: OrdInt>(a: T, b: T) -> (r: T)
    ensures r == (if a.as_int() <= b.as_int() { a } else { b }),
{ if a.le(b) { a } else { b } }

/// rewrite target of `o.is_some_and(|v| v != s)` (closure adaptor): Some(v) with v != s
fn shim_opt_ne_u64(o: Option<u64>, s: u64) -> (r: bool)
    ensures r == (o matches Some(v) && v != s),
{ match o { Some(v) => v != s, None => false } }
fn shim_opt_ne_u32(o: Option<u32>, s: u32) -> (r: bool)
    ensures r == (o matches Some(v) && v != s),
{ match o { Some(v) => v != s, None => false } }

/// rewrite target of `x != y` / `x == y` on byte slices (std PartialEq for [u8]: element-wise)
#[verifier::external_body]
fn shim_slice_eq(x: &[u8], y: &[u8]) -> (r: bool)
    ensures r == (x@ == y@),
{ x == y }
