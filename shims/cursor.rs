// ---- shims/cursor.rs : std::io::Cursor<&[u8]> (ASSUMED contracts: position/get_ref/set_position/new) ----
#[verifier::external_body]
#[verifier::reject_recursive_types(T)]
pub struct Cursor<T> { _p: core::marker::PhantomData<T> }

impl<'a> Cursor<&'a [u8]> {
    uninterp spec fn buf(&self) -> Seq<u8>;
    uninterp spec fn pos(&self) -> nat;

    #[verifier::external_body]
    fn new(b: &'a [u8]) -> (r: Self)
        ensures r.buf() == b@, r.pos() == 0,
    { unimplemented!() }

    #[verifier::external_body]
    fn position(&self) -> (r: u64)
        ensures r == self.pos(),
    { unimplemented!() }

    #[verifier::external_body]
    fn get_ref(&self) -> (r: &&'a [u8])
        ensures (**r)@ == self.buf(), self.buf().len() <= usize::MAX,
    { unimplemented!() }

    #[verifier::external_body]
    fn set_position(&mut self, p: u64)
        ensures final(self).pos() == p, final(self).buf() == old(self).buf(),
    { unimplemented!() }
}
