// ---- shims/lhm.rs : linked_hash_map::LinkedHashMap (0.5.6) as an insertion-ordered map (ASSUMED contracts) ----
// view: `order` (keys, oldest first, no duplicates) and `map` (key -> value) with dom(map) == set(order).
// insert of an existing key updates the value and moves the key to the back (read from lib.rs:315-351);
// pop_front removes and returns the oldest entry (lib.rs:510).
#[verifier::external_body]
#[verifier::reject_recursive_types(K)]
#[verifier::reject_recursive_types(V)]
pub struct LinkedHashMap<K, V> { _p: core::marker::PhantomData<(K, V)> }

spec fn seq_without<K>(s: Seq<K>, k: K) -> Seq<K> { s.filter(|x: K| x != k) }

impl<K, V> LinkedHashMap<K, V> {
    uninterp spec fn order(&self) -> Seq<K>;
    uninterp spec fn map(&self) -> Map<K, V>;

    spec fn wf(&self) -> bool {
        &&& self.order().no_duplicates()
        &&& forall|k: K| self.map().contains_key(k) <==> self.order().contains(k)
    }

    #[verifier::external_body]
    fn len(&self) -> (r: usize)
        ensures r == self.order().len(),
    { unimplemented!() }

    #[verifier::external_body]
    fn pop_front(&mut self) -> (r: Option<(K, V)>)
        requires old(self).wf(),
        ensures
            final(self).wf(),
            old(self).order().len() == 0 ==> r is None && final(self).order() == old(self).order() && final(self).map() == old(self).map(),
            old(self).order().len() > 0 ==> r == Some((old(self).order()[0], old(self).map()[old(self).order()[0]]))
                && final(self).order() == old(self).order().skip(1)
                && final(self).map() == old(self).map().remove(old(self).order()[0]),
    { unimplemented!() }

    #[verifier::external_body]
    fn remove(&mut self, k: &K) -> (r: Option<V>)
        requires old(self).wf(),
        ensures
            final(self).wf(),
            final(self).map() == old(self).map().remove(*k),
            final(self).order() == seq_without(old(self).order(), *k),
            final(self).order().len() <= old(self).order().len(),
            !old(self).map().contains_key(*k) ==> final(self).order() == old(self).order(),
    { unimplemented!() }

    #[verifier::external_body]
    fn insert(&mut self, k: K, v: V) -> (r: Option<V>)
        requires old(self).wf(),
        ensures
            final(self).wf(),
            final(self).map() == old(self).map().insert(k, v),
            final(self).order() == seq_without(old(self).order(), k).push(k),
            old(self).map().contains_key(k) ==> final(self).order().len() == old(self).order().len(),
            !old(self).map().contains_key(k) ==> final(self).order().len() == old(self).order().len() + 1,
    { unimplemented!() }
}
