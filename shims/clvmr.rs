// ---- shims/clvmr.rs : clvmr::Allocator as an immutable tree store (ASSUMED contracts, clvmr 0.17.7) ----
// node(n) is either an atom with its bytes or a pair of two nodes; `height` is a well-founded
// measure (pairs are strictly higher than their children) used for `decreases`.
// Contracts are read from clvmr-0.17.7/src/allocator.rs; the shim-conformance audit in the replay
// side-car exercises them against the real dependency.

#[derive(Clone, Copy, PartialEq, Eq, Hash)]
pub struct NodePtr(pub u32);

impl NodePtr {
    pub const NIL: NodePtr = NodePtr(0);
}

pub enum SExp {
    Atom,
    Pair(NodePtr, NodePtr),
}

pub enum NodeView {
    Atom(Seq<u8>),
    Pair(NodePtr, NodePtr),
}

#[verifier::external_body]
pub struct Allocator { _p: [u8; 0] }

/// clvmr::Atom<'a>: a borrowed byte string
#[verifier::external_body]
pub struct Atom<'a> { _p: &'a [u8] }

impl<'a> Atom<'a> {
    uninterp spec fn view(&self) -> Seq<u8>;

    #[verifier::external_body]
    fn as_ref(&self) -> (r: &[u8])
        ensures r@ == self@,
    { unimplemented!() }
}

impl Allocator {
    uninterp spec fn node_view(&self, n: NodePtr) -> NodeView;
    uninterp spec fn height(&self, n: NodePtr) -> nat;

    spec fn is_atom(&self, n: NodePtr) -> bool { self.node_view(n) is Atom }
    spec fn is_pair(&self, n: NodePtr) -> bool { self.node_view(n) is Pair }
    spec fn bytes(&self, n: NodePtr) -> Seq<u8> { self.node_view(n)->Atom_0 }
    spec fn left(&self, n: NodePtr) -> NodePtr { self.node_view(n)->Pair_0 }
    spec fn right(&self, n: NodePtr) -> NodePtr { self.node_view(n)->Pair_1 }

    #[verifier::external_body]
    fn sexp(&self, n: NodePtr) -> (r: SExp)
        ensures
            match r {
                SExp::Atom => self.node_view(n) is Atom,
                SExp::Pair(l, rr) => self.node_view(n) == NodeView::Pair(l, rr)
                    && self.height(l) < self.height(n) && self.height(rr) < self.height(n),
            },
    { unimplemented!() }

    /// panics on a pair in the real code: the precondition makes that a proof obligation
    #[verifier::external_body]
    fn atom(&self, n: NodePtr) -> (r: Atom<'_>)
        requires self.node_view(n) is Atom,
        ensures r@ == self.bytes(n),
    { unimplemented!() }

    #[verifier::external_body]
    fn atom_len(&self, n: NodePtr) -> (r: usize)
        requires self.node_view(n) is Atom,
        ensures r == self.bytes(n).len(),
    { unimplemented!() }

    #[verifier::external_body]
    fn next(&self, n: NodePtr) -> (r: Option<(NodePtr, NodePtr)>)
        ensures
            match r {
                None => self.node_view(n) is Atom,
                Some((l, rr)) => self.node_view(n) == NodeView::Pair(l, rr)
                    && self.height(l) < self.height(n) && self.height(rr) < self.height(n),
            },
    { unimplemented!() }

    /// Some(v) iff the node is an atom in canonical non-negative form whose value fits 26 bits
    /// (clvmr fits_in_small_atom / SmallAtom nodes)
    #[verifier::external_body]
    fn small_number(&self, n: NodePtr) -> (r: Option<u32>)
        ensures
            r == (if self.is_atom(n) && is_canonical(self.bytes(n)) && be_val(self.bytes(n)) < 0x400_0000 {
                Some(be_val(self.bytes(n)) as u32) } else { None::<u32> }),
    { unimplemented!() }

    #[verifier::external_body]
    fn nil(&self) -> (r: NodePtr)
        ensures r == NodePtr::NIL, self.node_view(r) == NodeView::Atom(Seq::<u8>::empty()),
    { unimplemented!() }
}

/// the nil pointer denotes the empty atom in every allocator
#[verifier::external_body]
broadcast proof fn axiom_nil_is_empty_atom(a: &Allocator)
    ensures #[trigger] a.node_view(NodePtr::NIL) == NodeView::Atom(Seq::<u8>::empty()),
{}

/// clvmr::allocator::NodeVisitor (result of Allocator::node)
pub enum NodeVisitor<'a> {
    Buffer(&'a [u8]),
    U32(u32),
    Pair(NodePtr, NodePtr),
}

impl Allocator {
    /// Buffer(b): heap atom with bytes b; U32(v): small atom whose bytes are the canonical form of v
    /// (clvmr SmallAtom nodes hold values < 2^26); Pair: the two children
    #[verifier::external_body]
    fn node(&self, n: NodePtr) -> (r: NodeVisitor<'_>)
        ensures
            match r {
                NodeVisitor::Buffer(b) => self.is_atom(n) && b@ == self.bytes(n),
                NodeVisitor::U32(v) => self.is_atom(n) && self.bytes(n) == canon(v as u64) && v < 0x400_0000,
                NodeVisitor::Pair(l, rr) => self.node_view(n) == NodeView::Pair(l, rr)
                    && self.height(l) < self.height(n) && self.height(rr) < self.height(n),
            },
    { unimplemented!() }
}

/// clvmr::allocator::ObjectType: the kind tag carried by a NodePtr
#[derive(Clone, Copy, PartialEq, Eq, Structural)]
pub enum ObjectType { Pair, Bytes, SmallAtom }

impl NodePtr {
    uninterp spec fn otype(self) -> ObjectType;
    uninterp spec fn idx(self) -> u32;

    #[verifier::external_body]
    fn object_type(self) -> (r: ObjectType)
        ensures r == self.otype(),
    { unimplemented!() }

    #[verifier::external_body]
    fn index(self) -> (r: u32)
        ensures r == self.idx(),
    { unimplemented!() }
}
/// the pair pointer with a given index
uninterp spec fn pair_ptr(i: u32) -> NodePtr;

/// a NodePtr is its (kind, index) pair; in every allocator a node is a pair exactly when its pointer says so
#[verifier::external_body]
broadcast proof fn axiom_pair_ptr(n: NodePtr)
    ensures #[trigger] n.otype() == ObjectType::Pair ==> n == pair_ptr(n.idx()),
{}
#[verifier::external_body]
broadcast proof fn axiom_ptr_kind(a: &Allocator, n: NodePtr)
    ensures (#[trigger] a.node_view(n) is Pair) <==> n.otype() == ObjectType::Pair,
{}
