// ---- shims/bytes.rs : byte-array / slice helpers that Verus cannot express on std directly ----
// Each is an *assumed* contract on a std operation, reached through the textual rewrites listed
// in the unit templates; Kani harnesses on the unrewritten compiled code vouch for the ladders.

/// `v.to_be_bytes()` for u64
#[verifier::external_body]
fn shim_u64_be(v: u64) -> (r: [u8; 8])
    ensures r@ == be8(v),
{ v.to_be_bytes() }

/// `a[start..].to_vec()` on an array
#[verifier::external_body]
fn shim_arr_from_to_vec<const N: usize>(a: &[u8; N], start: usize) -> (r: Vec<u8>)
    requires start <= N,
    ensures r@ == a@.subrange(start as int, N as int),
{ a[start..].to_vec() }

/// `&a[start..]` on an array
#[verifier::external_body]
fn shim_arr_from<const N: usize>(a: &[u8; N], start: usize) -> (r: &[u8])
    requires start <= N,
    ensures r@ == a@.subrange(start as int, N as int),
{ &a[start..] }

/// `v.extend(a)` with an array argument
#[verifier::external_body]
fn shim_vec_extend_arr<const N: usize>(v: &mut Vec<u8>, a: [u8; N])
    ensures final(v)@ == old(v)@ + a@,
{ v.extend(a) }

/// `v.extend(s)` / `v.extend_from_slice(s)` with a slice argument
#[verifier::external_body]
fn shim_vec_extend(v: &mut Vec<u8>, s: &[u8])
    ensures final(v)@ == old(v)@ + s@,
{ v.extend_from_slice(s) }

/// `&s[start..]` on a slice
#[verifier::external_body]
fn shim_slice_from(s: &[u8], start: usize) -> (r: &[u8])
    requires start <= s@.len(),
    ensures r@ == s@.subrange(start as int, s@.len() as int),
{ &s[start..] }

/// `&s[..end]` on a slice
#[verifier::external_body]
fn shim_slice_to(s: &[u8], end: usize) -> (r: &[u8])
    requires end <= s@.len(),
    ensures r@ == s@.subrange(0, end as int),
{ &s[..end] }

/// `&s[a..b]` on a slice
#[verifier::external_body]
fn shim_slice_range(s: &[u8], a: usize, b: usize) -> (r: &[u8])
    requires a <= b <= s@.len(),
    ensures r@ == s@.subrange(a as int, b as int),
{ &s[a..b] }

/// `u16::from_be_bytes(buf.try_into().unwrap())` on a 2-byte slice
#[verifier::external_body]
fn shim_u16_from_be(buf: &[u8]) -> (r: u16)
    requires buf@.len() == 2,
    ensures r == (buf@[0] as u16 * 256 + buf@[1] as u16) as u16,
{ u16::from_be_bytes(buf.try_into().unwrap()) }

/// `<[T]>::swap` (std): exchanges two elements, everything else unchanged
pub assume_specification<T> [ <[T]>::swap ] (s: &mut [T], a: usize, b: usize)
    requires a < old(s)@.len(), b < old(s)@.len(),
    ensures final(s)@ == old(s)@.update(a as int, old(s)@[b as int]).update(b as int, old(s)@[a as int]);
