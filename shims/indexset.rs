// ---- shims/indexset.rs : indexmap::IndexSet<T> as a finite set (ASSUMED contracts; order only matters for which
// free index is popped first, which no obligation depends on) ----
#[verifier::external_body]
#[verifier::reject_recursive_types(T)]
pub struct IndexSet<T> { _p: core::marker::PhantomData<T> }

impl<T> IndexSet<T> {
    uninterp spec fn view(&self) -> Set<T>;

    #[verifier::external_body]
    fn contains(&self, x: &T) -> (r: bool)
        ensures r == self@.contains(*x),
    { unimplemented!() }

    #[verifier::external_body]
    fn insert(&mut self, x: T) -> (r: bool)
        ensures final(self)@ == old(self)@.insert(x), r == !old(self)@.contains(x),
    { unimplemented!() }

    #[verifier::external_body]
    fn shift_remove(&mut self, x: &T) -> (r: bool)
        ensures final(self)@ == old(self)@.remove(*x), r == old(self)@.contains(*x),
    { unimplemented!() }

    #[verifier::external_body]
    fn len(&self) -> (r: usize)
        ensures r == self@.len(),
    { unimplemented!() }

    #[verifier::external_body]
    fn clear(&mut self)
        ensures final(self)@ == Set::<T>::empty(),
    { unimplemented!() }
}

/// rewrite target of `set.iter().next().copied()`: some member, or None when empty
#[verifier::external_body]
fn shim_indexset_first<T: Copy>(s: &IndexSet<T>) -> (r: Option<T>)
    ensures
        r matches Some(x) ==> s@.contains(x),
        r is None ==> s@ =~= Set::<T>::empty(),
{ unimplemented!() }
