// ---- shims/flags.rs : chia_consensus::flags::ConsensusFlags (bitflags! type) ----
// The constants are read from /repo/crates/chia-consensus/src/flags.rs on every run (the bitflags!
// invocation is rewritten textually into an impl block of associated constants); `contains`,
// `union`, `bits` follow the bitflags crate semantics (bit operations on the declared bits).
#[derive(Clone, Copy)]
pub struct ConsensusFlags { pub bits: u32 }

//@extract crates/chia-consensus/src/flags.rs macro_call:bitflags
//@sub 1 bitflags! \{ =>> 
//@sub 1 #\[derive\([^\]]*\)\] =>> 
//@sub 1 pub struct ConsensusFlags: u32 \{ =>> impl ConsensusFlags {
//@sub 19 const (\w+) = (0x[0-9a-fA-F_]+); =>> pub const \1: ConsensusFlags = ConsensusFlags { bits: \2 };
//@sub 1 \}(\s*)\}$ =>> }\1
//@end

impl ConsensusFlags {
    spec fn has(self, other: ConsensusFlags) -> bool { self.bits & other.bits == other.bits }

    fn contains(&self, other: ConsensusFlags) -> (r: bool)
        ensures r == self.has(other),
    { self.bits & other.bits == other.bits }

    fn union(self, other: ConsensusFlags) -> (r: ConsensusFlags)
        ensures r.bits == self.bits | other.bits,
    { ConsensusFlags { bits: self.bits | other.bits } }

    fn empty() -> (r: ConsensusFlags)
        ensures r.bits == 0,
    { ConsensusFlags { bits: 0 } }
}
