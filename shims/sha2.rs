// ---- shims/sha2.rs : chia_sha2::Sha256 as a ghost byte accumulator over an uninterpreted sha256 ----
uninterp spec fn sha256(s: Seq<u8>) -> Seq<u8>;

/// sha256 digests are 32 bytes (property of the hash function; assumed)
#[verifier::external_body]
broadcast proof fn axiom_sha256_len(s: Seq<u8>)
    ensures #[trigger] sha256(s).len() == 32
{}

/// types accepted by `Sha256::update(impl AsRef<[u8]>)`, with the bytes they denote
pub trait AsBytes {
    spec fn as_seq(&self) -> Seq<u8>;
}
impl<const N: usize> AsBytes for [u8; N] {
    closed spec fn as_seq(&self) -> Seq<u8> { self@ }
}
impl AsBytes for &[u8] {
    closed spec fn as_seq(&self) -> Seq<u8> { (*self)@ }
}
impl AsBytes for &Vec<u8> {
    closed spec fn as_seq(&self) -> Seq<u8> { (*self)@ }
}
impl<const N: usize> AsBytes for &[u8; N] {
    closed spec fn as_seq(&self) -> Seq<u8> { (*self)@ }
}

#[verifier::external_body]
pub struct Sha256 { _p: [u8; 0] }

impl Sha256 {
    uninterp spec fn absorbed(&self) -> Seq<u8>;

    #[verifier::external_body]
    fn new() -> (r: Sha256)
        ensures r.absorbed() == Seq::<u8>::empty(),
    { unimplemented!() }

    #[verifier::external_body]
    fn update<T: AsBytes>(&mut self, t: T)
        ensures final(self).absorbed() == old(self).absorbed() + t.as_seq(),
    { unimplemented!() }

    /// `hasher.finalize()` : [u8; 32]
    #[verifier::external_body]
    fn finalize(self) -> (r: [u8; 32])
        ensures r@ == sha256(self.absorbed()),
    { unimplemented!() }
}

/// rewrite target of `hasher.finalize().as_slice().try_into().unwrap()` (identity on [u8; 32])
fn shim_digest_32(d: [u8; 32]) -> (r: [u8; 32])
    ensures r == d,
{ d }
