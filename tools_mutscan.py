#!/usr/bin/env python3
"""Mutation scan of one function against one unit, on the dev snapshot /var/tmp/repo-dev.
usage: tools_mutscan.py <unit> <verus-function-name> <file-rel> <first-line> <last-line> [max]
Each mutant flips one operator / constant on one line; the unit is regenerated and only that function is verified.
Prints one line per mutant: CAUGHT / SURVIVED / UNDECIDED."""
import os, re, subprocess, sys
D = '/var/tmp/repo-dev'
unit, fn, rel = sys.argv[1], sys.argv[2], sys.argv[3]
path = os.path.join(D, rel)
orig = open(path).read()
if sys.argv[4].isdigit():
    lo, hi = int(sys.argv[4]), int(sys.argv[5]); mx = int(sys.argv[6]) if len(sys.argv) > 6 else 10**9
else:
    sys.path.insert(0, '/verif')
    from vf import rustlex
    item, toks = rustlex.find_item(orig, sys.argv[4])
    lo = orig.count('\n', 0, item.body_open) + 2
    hi = orig.count('\n', 0, item.end)
    mx = int(sys.argv[5]) if len(sys.argv) > 5 else 10**9
lines = orig.split('\n')
RULES = [(r' <= ', ' < '), (r' >= ', ' > '), (r' < ', ' <= '), (r' > ', ' >= '), (r'==', '!='), (r'!=', '=='),
         (r'&&', '||'), (r'\|\|', '&&'), (r'\+ 1\b', '+ 2'), (r'- 1\b', '- 0'), (r'\btrue\b', 'false'), (r'\bfalse\b', 'true'),
         (r'\+=', '-='), (r'-=', '+='), (r'\bmax\(', 'min('), (r'\bmin\(', 'max('), (r'\.insert\(', '.contains(&'), (r'\bSome\((\w+)\)', 'None')]
def run():
    g = subprocess.run(['./check', 'gen', unit], cwd='/verif', env=dict(os.environ, VERIF_REPO=D), capture_output=True, text=True)
    if g.returncode != 0 or 'Undecided' in (g.stdout + g.stderr) or 'Traceback' in (g.stdout + g.stderr):
        m = re.search(r'Undecided: (.*)', g.stdout + g.stderr)
        return 'UNDECIDED', (m.group(1)[:100] if m else 'gen failed')
    v = subprocess.run(['verus', unit + '_dbg.rs', '--rlimit', '120', '--triggers-mode', 'silent', '--verify-root', '--verify-function', fn],
                       cwd='/verif/.cache/gen', capture_output=True, text=True, timeout=900)
    out = v.stdout + v.stderr
    m = re.search(r'verification results:: (\d+) verified, (\d+) errors', out)
    if not m:
        e = re.search(r'^error.*$', out, flags=re.M)
        return 'UNDECIDED', (e.group(0)[:100] if e else 'no result')
    if int(m.group(2)) > 0:
        e = re.search(r'^error: (.*)$', out, flags=re.M)
        return 'CAUGHT', (e.group(1)[:60] if e else '')
    return 'SURVIVED', ''
n = 0
stats = {'CAUGHT': 0, 'SURVIVED': 0, 'UNDECIDED': 0}
try:
    for i in range(lo - 1, min(hi, len(lines))):
        ln = lines[i]
        if ln.strip().startswith('//') or not ln.strip():
            continue
        code = ln.split('//')[0]
        for rx, rep in RULES:
            for m in re.finditer(rx, code):
                if n >= mx: raise StopIteration
                new = ln[:m.start()] + m.expand(rep) + ln[m.end():]
                if new == ln: continue
                ml = lines[:]; ml[i] = new
                open(path, 'w').write('\n'.join(ml))
                n += 1
                st, why = run()
                stats[st] += 1
                print('%-9s %s:%d  %s  ->  %s   %s' % (st, os.path.basename(rel), i + 1, ln.strip()[:70], new.strip()[:70], why), flush=True)
except StopIteration:
    pass
finally:
    open(path, 'w').write(orig)
print('TOTAL', stats)
