#!/bin/bash
# usage: tools_recheck.sh <seed-id> [<seed-id> ...]   — apply a stored seeded change to /repo, run the property's quick check, revert
cd /repo && [ -z "$(git status --porcelain --untracked-files=no)" ] || { echo "/repo dirty"; exit 9; }
for id in "$@"; do
  prop=${id%%-*}
  echo "######## $id"
  git -C /repo apply /verif/seeded/$id/patch.diff || { echo "patch does not apply"; continue; }
  (cd /verif && VERIF_EVIDENCE_DIR=/verif/.cache/evidence-mut ./check $prop 2>&1 | grep -E "VIOLATION|UNDECIDED|HELD|VIOLATED|KNOWN" ; echo "check-exit=${PIPESTATUS[0]}")
  git -C /repo checkout -q -- .
done
