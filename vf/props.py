"""Registry: contract units and the properties they serve."""

EXTRACTION_DROPS = [
    "attributes other than derive(Clone, Copy) (or the derive list the template states) and repr; doc comments; cfg(test) items",
    "field/variant attributes inside extracted struct/enum declarations (#[error], #[default], #[clvm], ...)",
    "textual rewrites listed with an expected match count in each template (//@sub lines); a count mismatch is exit 2",
    "`-> T` rewritten to `-> (r: T)` to name the result; contract clauses spliced between signature and body; invariants spliced at loop heads",
]

UNITS = {
    "time_locks": {"template": "contracts/time_locks.vrs", "rlimit": 30},
}


def V(unit, tier="quick"):
    u = UNITS[unit]
    return {"kind": "verus", "unit": unit, "template": u["template"], "rlimit": u.get("rlimit", 30), "tier": tier}


NOT_BUILT = "check not built yet in this session (design in DESIGN.md §5); will be claimed once its contract unit verifies"
NOT_APPLICABLE = {
    "C16": "every clause is a theorem about BLS12-381 arithmetic inside blst (foreign C/assembly behind unsafe FFI) or num-bigint: a contract on the Rust wrappers would only restate an assumed contract; nothing for Verus/Kani to discharge",
    "C20": "all code takes/returns pyo3 Bound<PyAny> and goes through the CPython C-API, format! and str slicing: outside Verus (no model of either) and Kani (cannot execute the interpreter FFI)",
}
for _p in ["C01", "C02", "C04", "C05", "C06", "C07", "C08", "C09", "C10", "C11", "C12", "C13", "C14", "C15", "C17", "C18", "C19"]:
    NOT_APPLICABLE[_p] = NOT_BUILT

PROPS = {
    "C03": {
        "level": "proof",
        "technique": "Verus contracts on the real check_time_locks (extracted verbatim): iff-postcondition against per-assertion saturating-arithmetic spec, loop invariant over all spends",
        "level_text": "Deductive proof (Verus/Z3) over all inputs: check_time_locks returns Ok exactly when every folded assertion holds with saturating sums; unbounded in number of spends and in all u32/u64 values.",
        "level_note": "Assumes vstd HashMap model and key model for Bytes32; nowrap=true mode only; folding in parse_conditions is covered by the conditions units when built.",
        "components": [V("time_locks")],
        "assumptions": [
            "vstd HashMap model; obeys_key_model::<Bytes32>() assumed (derived Hash/Eq on a byte array)",
            "nowrap=true only (legacy wrapping mode is outside the statement)",
        ],
        "not_covered": [],
    },
}

for _p in PROPS:
    NOT_APPLICABLE.pop(_p, None)
