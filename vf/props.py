"""Registry: contract units and the properties they serve."""

EXTRACTION_DROPS = [
    "attributes other than derive(Clone, Copy) (or the derive list the template states) and repr; doc comments; cfg(test) items",
    "field/variant attributes inside extracted struct/enum declarations (#[error], #[default], #[clvm], ...)",
    "textual rewrites listed with an expected match count in each template (//@sub lines); a count mismatch is exit 2",
    "`-> T` rewritten to `-> (r: T)` to name the result; contract clauses spliced between signature and body; invariants spliced at loop heads",
]

UNITS = {
    "time_locks": {"template": "contracts/time_locks.vrs", "rlimit": 30},
    "int_encoders": {"template": "contracts/int_encoders.vrs", "rlimit": 30},
    "conditions_parse": {"template": "contracts/conditions_parse.vrs", "rlimit": 60},
    "conditions_effects": {"template": "contracts/conditions_effects.vrs", "rlimit": 120},
    "conditions_aggsig": {"template": "contracts/conditions_aggsig.vrs", "rlimit": 120},
    "conditions_record": {"template": "contracts/conditions_record.vrs", "rlimit": 120},
    "sig_paths": {"template": "contracts/sig_paths.vrs", "rlimit": 60},
    "fast_forward": {"template": "contracts/fast_forward.vrs", "rlimit": 60},
    "fingerprint": {"template": "contracts/fingerprint.vrs", "rlimit": 60},
    "validate_conds": {"template": "contracts/validate_conds.vrs", "rlimit": 60},
    "drivers": {"template": "contracts/drivers.vrs", "rlimit": 60},
    "merkle_tree": {"template": "contracts/merkle_tree.vrs", "rlimit": 60},
    "curry": {"template": "contracts/curry.vrs", "rlimit": 60},
    "perm": {"template": "contracts/perm.vrs", "rlimit": 200},
    "bls_gt": {"template": "contracts/bls_gt.vrs", "rlimit": 60},
    "trusted_additions": {"template": "contracts/trusted_additions.vrs", "rlimit": 60},
    "tree_hash_bytes": {"template": "contracts/tree_hash_bytes.vrs", "rlimit": 30},
    "bundle_additions": {"template": "contracts/bundle_additions.vrs", "rlimit": 60},
    "streamable_complete": {"template": "contracts/streamable_complete.vrs", "rlimit": 60},
    "builders_interned": {"template": "contracts/builders_interned.vrs", "rlimit": 60},
    "mempool_visitor": {"template": "contracts/mempool_visitor.vrs", "rlimit": 60},
    "generator_len": {"template": "contracts/generator_len.vrs", "rlimit": 30},
    "aggsig": {"template": "contracts/aggsig.vrs", "rlimit": 60},
    "trusted_lookup": {"template": "contracts/trusted_lookup.vrs", "rlimit": 60},
    "builders": {"template": "contracts/builders.vrs", "rlimit": 60},
    "costs": {"template": "contracts/costs.vrs", "rlimit": 30},
    "blob_cache": {"template": "contracts/blob_cache.vrs", "rlimit": 60},
    "bls_cache": {"template": "contracts/bls_cache.vrs", "rlimit": 30},
    "merkle_set": {"template": "contracts/merkle_set.vrs", "rlimit": 60},
    "tree_hash": {"template": "contracts/tree_hash.vrs", "rlimit": 60},
    "streamable_core": {"template": "contracts/streamable_core.vrs", "rlimit": 60},
    "streamable_derived_0": {"generator": {"crates": ("chia-protocol",), "part": 0, "parts": 3, "out_name": "streamable_derived_0"}, "rlimit": 60},
    "streamable_derived_1": {"generator": {"crates": ("chia-protocol",), "part": 1, "parts": 3, "out_name": "streamable_derived_1"}, "rlimit": 60},
    "streamable_derived_2": {"generator": {"crates": ("chia-protocol",), "part": 2, "parts": 3, "out_name": "streamable_derived_2"}, "rlimit": 60},
    "streamable_complete_0": {"generator": {"crates": ("chia-protocol",), "part": 0, "parts": 3, "out_name": "streamable_complete_0", "complete": True}, "rlimit": 120},
    "streamable_complete_1": {"generator": {"crates": ("chia-protocol",), "part": 1, "parts": 3, "out_name": "streamable_complete_1", "complete": True}, "rlimit": 120},
    "streamable_complete_2": {"generator": {"crates": ("chia-protocol",), "part": 2, "parts": 3, "out_name": "streamable_complete_2", "complete": True}, "rlimit": 120},
    "streamable_handwritten": {"generator": {"crates": ("chia-protocol",), "part": "hw", "out_name": "streamable_handwritten"}, "rlimit": 60,
                               "known_clauses": ("r matches Ok(v) ==> v.hashable(),",)},
}


def K(name, harnesses, complete, bound, tier="quick", function=None, zflags=None, timeout=1800):
    return {"kind": "kani", "name": name, "harnesses": harnesses, "complete": complete, "bound": bound,
            "tier": tier, "function": function, "zflags": zflags or [], "timeout": timeout}


def N(name, task, tier="quick", thorough_task=None, exclude_id=None):
    return {"kind": "native", "name": name, "task": task, "tier": tier, "thorough_task": thorough_task, "timeout": 3600,
            "exclude_id": exclude_id}


def B(name, task, bound, tier="quick", timeout=1800):
    """bounded stand-in (native exploration with a stated bound): reported under coverage.bounded, never counted as proved"""
    return {"kind": "native", "name": name, "task": task, "tier": tier, "bounded": bound, "timeout": timeout}


def V(unit, tier="quick", exclude_clause=None):
    u = UNITS[unit]
    return {"kind": "verus", "unit": unit, "template": u.get("template"), "generator": u.get("generator"),
            "rlimit": u.get("rlimit", 30), "tier": tier, "exclude_clause": exclude_clause,
            "known_clauses": u.get("known_clauses", ())}


NOT_BUILT = "check not built yet in this session (design in DESIGN.md §5); will be claimed once its contract unit verifies"
NOT_APPLICABLE = {
    "C16": "every clause is a theorem about BLS12-381 arithmetic inside blst (foreign C/assembly behind unsafe FFI) or num-bigint: a contract on the Rust wrappers would only restate an assumed contract; nothing for Verus/Kani to discharge",
    "C20": "all code takes/returns pyo3 Bound<PyAny> and goes through the CPython C-API, format! and str slicing: outside Verus (no model of either) and Kani (cannot execute the interpreter FFI)",
}
for _p in ["C01", "C02", "C04", "C05", "C06", "C07", "C08", "C09", "C10", "C11", "C12", "C13", "C14", "C15", "C17", "C18", "C19"]:
    NOT_APPLICABLE[_p] = NOT_BUILT

PROPS = {
    "C03": {
        "level": "proof",
        "technique": "Verus contracts on the real check_time_locks (extracted verbatim): iff-postcondition against per-assertion saturating-arithmetic spec (both checking modes), loop invariant over all spends; spec-level fold-vs-each lemmas; max/min folding arms and the relative mark in parse_conditions (units conditions_effects, conditions_record); impossible-window and ephemeral clauses of validate_conditions (iff)",
        "level_text": "Deductive proof (Verus/Z3) over all inputs: check_time_locks returns Ok exactly when every folded assertion holds with saturating sums; unbounded in number of spends and in all u32/u64 values.",
        "level_note": "Assumes vstd HashMap model and key model for Bytes32; both checking modes are specified (saturating sums in the consensus mode, modular sums in the legacy mode). Spec-level lemmas (lemma_after_fold, lemma_before_fold, lemma_relative_after_fold) prove that testing a max-/min-folded lock is the same as testing every individual assertion, for any number of assertions, including saturating relative sums. Folding (max for after-locks, min for before-locks, birth agreement, impossible-window rejection, relative-condition mark) is proved for parse_conditions against the effect spec; validate_conditions (unit validate_conds) is proved to accept iff no absolute before-lock is <= the absolute after-lock and no spend with a relative lock is ephemeral (iff, with is_ephemeral against its definition); ",
        "components": [V("time_locks"), V("conditions_effects"), V("validate_conds"), V("conditions_record"),
                       N("native_time_locks_ground", "time_locks_ground", thorough_task="time_locks_ground:thorough"),
                       N("native_relations_ground", "relations_ground", thorough_task="relations_ground:thorough")],
        "assumptions": [
            "vstd HashMap model; obeys_key_model::<Bytes32>() assumed (derived Hash/Eq on a byte array)",
            "the legacy wrapping mode (nowrap=false, outside the statement) is specified as addition modulo 2^width and proved as well",
        ],
        "not_covered": [],
    },
}

PROPS["C11"] = {
    "level": "proof",
    "technique": "Verus contracts on the real encoders/decoders extracted verbatim (Coin::coin_id, u64_to_bytes, clvm_bytes_len, sanitize_uint, clvmr u64_from_bytes) against one spec canon(v); Kani complete proofs over all u64/i64 on the compiled crates",
    "level_text": "Deductive proof: every u64 ladder in the repository equals canon(v) (minimal big-endian two's complement), sanitize_uint classifies every atom exactly as the rule says and accepts only canon(v); canon is injective and decodes back to v. Kani proves u64_to_bytes and clvm-traits encode/decode over all 2^64 inputs on the compiled code.",
    "level_note": "Assumed: to_be_bytes / slicing / Vec::extend shims (each cross-checked by the Kani harnesses on unrewritten code), Sha256 as a byte accumulator over an uninterpreted sha256, clvmr Allocator accessor contracts. encode_number/decode_number are decided by Kani for 64-bit widths (complete): round trip over all u64 / i64, and faithfulness of the decoder over every atom of at most 10 bytes (it returns exactly the value the atom denotes and refuses exactly the atoms outside the target range; also at 32 bits signed); wider widths not covered.",
    "components": [
        V("int_encoders"),
        K("kani_int_encoders", ["u64_to_bytes_is_canon", "encode_number_u64_is_canon", "decode_encode_u64_roundtrip", "decode_encode_i64_roundtrip",
                                "decode_number_i64_is_faithful", "decode_number_u64_is_faithful", "decode_number_i32_is_faithful"],
          True, "complete: all 2^64 inputs resp. every atom of at most 10 (6) bytes, loops bounded by operand width (unwind 11/12, unwinding assertions on)"),
        # every integer width of the clvm-traits conversions and MatchByte at the boundaries, against the interpreter's own form
        N("native_ints_ground", "ints_ground"),
        # the places that append an amount to a signature message: the stand-alone helper and the inline path of the
        # condition parser are each proved to append canon(amount) (units of C05, which this property's statement names)
        V("aggsig"), V("conditions_aggsig"),
    ],
    "assumptions": [
        "shim contracts: u64::to_be_bytes == be8, array/slice range indexing == subrange, Vec::extend == concatenation",
        "Sha256 ghost model: update appends, finalize == sha256(absorbed), sha256 uninterpreted",
        "clvmr::Allocator accessor contracts (sexp/atom) over an abstract immutable tree",
    ],
    "not_covered": [
        "clvm-traits ToClvm/FromClvm integer impls for widths other than 64 bits (macro-generated; route through encode_number/decode_number, which Kani proves at 64 and 32 bits): decided on ground boundary values of all twelve widths and MatchByte (task ints_ground)",
        "Allocator::new_number (the interpreter's own encoder) is in the assumed shim",
    ],
}

PROPS["C01"] = {
    "level": "proof",
    "technique": "Verus contracts on the real condition parser (parse_opcode, sanitizers, list helpers, SpendId::parse, parse_args extracted verbatim) proved equal to a table-driven rule spec over all allocator trees, opcodes and flag words; three overlays on the real parse_conditions / process_single_spend (summary == fold of the effect spec; recording rule for the deferred checks; signed texts); validate_conditions iff its accept spec; MempoolVisitor; parse_spends (unit drivers)",
    "level_text": "Deductive proof (Verus/Z3), unbounded in tree shape, list length and flags: each condition is accepted or rejected and decoded exactly as the rule table (DESIGN Appendix A) prescribes (tier 1, iff), and whenever parse_conditions / process_single_spend accept a spend, its summary (costs, relative/absolute locks, birth assertions, reserved fee, added amounts, created-coin set, coin identity) equals the fold of the per-condition effect spec over the condition list (tier 2); every announcement, concurrent-spend / -puzzle assertion, ephemeral assertion, relative mark and message is recorded into ParseState exactly once under the right coin and nothing else is (unit conditions_record, per condition); validate_conditions accepts exactly when the recorded assertions are satisfied (unit validate_conds, iff); parse_spends / run_spendbundle / run_block_generator2 string these together (unit drivers).",
    "level_note": "Assumed: clvmr Allocator accessor contracts (abstract immutable tree), bitflags semantics with constants read from flags.rs each run, 2-byte cost table entries (decided by native-eval under C04). Error codes are not part of the contract, accept/reject and the decoded value are.",
    "components": [V("conditions_effects"), V("mempool_visitor"), V("validate_conds"), V("drivers"), V("conditions_record"), V("conditions_aggsig"),
                   # ground verdicts the rules prescribe (concurrent spends, announcements, messages, ephemeral coins, limits)
                   N("native_relations_ground", "relations_ground", thorough_task="relations_ground:thorough"),
                   # the mempool eligibility flags of the reported summary (dedup, fast-forward) across spends
                   N("native_dedup_ground", "dedup_ground"),
                   # the summary as handed out (OwnedSpendBundleConditions): every field equals the parsed summary's
                   N("native_paths_ground", "paths_ground")],
    "assumptions": [
        "clvmr::Allocator accessor contracts over an abstract immutable tree (shims/clvmr.rs)",
        "bitflags contains() == bit test on the constants read from flags.rs",
        "std HashSet/HashMap insertion semantics (OSet/OMap/NewCoinSet shims), std max/min, to_key and check_agg_sig_unsafe_message (C05)",
    ],
    "not_covered": [
        "the summary contract of parse_conditions is one-directional (accept ==> summary equals the rule spec); rejection for un-modelled reasons (bad keys, message modes) is not characterised",
        "Message::make_key / SpendId::from_self framing of message keys (uninterpreted): what is proved is that each message condition queues exactly one entry with the condition's peer, text and sign (unit conditions_record) and that validate_conditions balances the queue per key (unit validate_conds)",
        "MempoolVisitor::post_spend / post_process (iterator closures); new_spend and condition are under contract (mempool_visitor unit)",
    ],
}
PROPS["C06"] = {
    "level": "proof",
    "technique": "Verus spec-level lemmas over the proved-equal rule spec - per condition (parse_args_spec) and per condition list (run_list, by induction) acceptance under stricter flags implies identical acceptance under laxer flags - on top of the contracts that tie parse_args / parse_conditions / validate_conditions to those specs; native evaluation of ground relations between runs (strict vs lenient, permutations) of the real parser",
    "level_text": "Deductive proof: for every tree, opcode and pair of flag words that differ only in strictness flags, strict acceptance of a condition implies lenient acceptance with the identical parsed condition (lemma_strict_only_restricts), and the same for a whole condition list with the identical summary (lemma_run_list_strict_only_restricts, induction over the list); parse_args and parse_conditions are proved equal to those specs (units conditions_parse, conditions_effects), and the deferred checks are proved to be a function of order-insensitive sets, sums and extrema (unit validate_conds, iff). Order independence of the conditions of a spend is a machine-checked lemma over the same spec (unit perm: every pair of per-condition effects commutes - 17 effect kinds, proved kind by kind - and therefore run_list is invariant under swapping two adjacent conditions, lemma_adjacent_swap; every permutation is a product of adjacent transpositions); it is additionally decided on ground relations (reversed / rotated / interleaved condition orders, swapped spends, each strictness subset x fork flags) over fixed bundles with boundary multiplicities (127/128/129 identical messages, 1023/1024/1025 announcements, 5999/6000/6001 spends).",
    "level_note": "Inherits C01's assumptions. The contract tying parse_conditions to the spec is one-directional (acceptance implies the summary equals the spec), so from the lemma one gets: if both orders are accepted, their summaries are identical; that the reordered list is accepted at all is decided on the ground relations. Order of spends within a bundle (cross-spend sets and sums in validate_conditions) is argued from the iff-contract of validate_conditions over order-insensitive sets and decided on ground relations.",
    "components": [V("conditions_parse"), V("conditions_effects"), V("validate_conds"), N("native_relations_ground", "relations_ground", thorough_task="relations_ground:thorough"), V("drivers"), V("perm")],
    "assumptions": ["inherits C01 (conditions_parse / conditions_effects units)"],
    "not_covered": [
        "acceptance of the reordered condition list (the parse_conditions contract is one-directional); permutations of whole spends: ground relations only",
        "LIMIT_SPENDS exit of parse_spends / run_spendbundle and the bundle-level lifting across spends (ground relations only)",
    ],
}

PROPS["C04"] = {
    "level": "proof",
    "technique": "Verus contracts on the real cost code (constants, subtract_cost, interned_vbytes, unknown-condition cost indexing) plus exhaustive native evaluation of the 2-byte cost table against the closed form; pre-charge accounting and cost conservation in parse_conditions / process_single_spend; cost at the exits of run_spendbundle, run_block_generator2, the legacy run_block_generator and parse_spends (unit drivers); native evaluation of exact-limit obligations (budget == cost passes, cost - 1 fails) per cost class on both paths",
    "level_text": "Deductive proof of the cost constants, of subtract_cost (succeeds iff the charge fits, exact at the limit, frame on failure), of interned_vbytes == sum(atom_len)+2*atoms+3*pairs, and of the low-byte indexing of the unknown-condition table; the 65536 values of compute_unknown_condition_cost are decided exhaustively by evaluating the real function against an independent big-integer closed form.",
    "level_note": "parse_conditions' accounting is proved: the three accumulators (limit, bundle, spend) move by exactly the table cost of each condition, charged before its arguments are parsed, with CostExceeded exactly when the charge does not fit; SPEND_COST in process_single_spend. The driver exits are proved in unit drivers: run_spendbundle and run_block_generator2 report exactly generator size cost (serialized length minus the quote wrapper, resp. program length, resp. interned virtual bytes, times cost_per_byte) + CLVM execution cost + condition cost, never more than the limit, every charge through subtract_cost, under the cost-conservation contract of process_single_spend proved in unit conditions_aggsig. CLVM execution cost is whatever run_program returns (assumed <= the budget it was given when that budget is positive; clvmr reads a budget of 0 as no limit, for which only a physical bound of 2^62 cost units is assumed; run_spendbundle's contract requires max_cost <= 2^62). Exactness of the limit end to end (a budget equal to the cost passes, one less fails) is a relation between two runs: decided on ground bundles on both paths with and without COST_CONDITIONS (task paths_ground), since a one-directional contract cannot see a test that rejects too early.",
    "components": [V("costs"), V("conditions_effects"), N("native_cost_table", "cost_table"), V("drivers"), N("native_paths_ground", "paths_ground")],
    "assumptions": [
        "clvmr cost model: run_program reports at most the budget it was given when that budget is positive; a budget of 0 is no limit to clvmr, and then only a physical bound is assumed (a run that returns reports at most 2^62 cost units); run_spendbundle is verified for max_cost <= 2^62", "intern_tree contract",
        "allocator limits (< 2^32 heap bytes / atoms / pairs) as the precondition of interned_vbytes",
    ],
    "not_covered": [
        "get_coinspends/additions_and_removals do not report cost",
        "the legacy run_block_generator: the ROM generator's argument list construction is behind a shim (the allocator is opaque); its cost exit (size + execution + conditions, within the one budget) is under contract and its limit is exact on the ground bundles",
    ],
}

_STREAM_ASSUME = [
    "std contracts behind rewrites: to_be_bytes/from_be_bytes (uninterpreted injective be_T), slice range indexing, Vec::extend_from_slice, slice->array conversion, mem::size_of",
    "std::io::Cursor<&[u8]> position/get_ref/set_position model (shims/cursor.rs)",
    "Sha256 ghost model: update appends, finalize == sha256(absorbed)",
]
PROPS["C13"] = {
    "level": "proof",
    "technique": "Verus trait-level contract on the real Streamable trait and impls (extracted verbatim; macro arms expanded by token substitution): stream/update_digest/parse all against one accumulator-style encoding spec enc_onto; decoder completeness (second trait-level contract, quantified over every value whose encoding starts at the cursor) for core impls and derived structs; native round-trip evaluation of every declared type",
    "level_text": "Deductive proof, modular over the trait: for every impl under contract, stream appends exactly enc, update_digest absorbs exactly enc (so hash == sha256(enc)), and whenever parse (trusted or not: same contract) returns a value the consumed bytes are exactly that value's encoding (canonicity); from_bytes accepts only inputs that are entirely the encoding.",
    "level_note": "Covered impls: 10 integer primitives, bool, (), Option<T>, tuples 2-4, Vec<T>, Bytes, BytesImpl<N>, trait default methods, all 112 derive(Streamable) structs of chia-protocol (from rustc's expansion, spec generated from the declarations) and the hand-written codecs (FullBlock, UnfinishedBlock, ProofOfSpace incl. the v2 quality-string hash, RewardChainBlock, SubEpochSummary, SubEpochData with the shared-prefix optional helper, Program, String). Opaque with assumed contract: [T;N], BLS elements, derived enums. The decode(encode(x)) direction is proved as decoder completeness (units streamable_complete, streamable_complete_0..2: wherever the encoding of a well-formed value starts at the cursor, parse - trusted or not - succeeds and returns a value with that very encoding; from_bytes of an encoding succeeds) for the core impls and all derived structs, and decided on ground values of every declared type (task roundtrip_ground).",
    # the `hashable` clause of parse (hashing a decoded value is defined) is C14's statement, decided there
    "components": [V("streamable_core")] + [V(u, exclude_clause=r"v\.hashable\(\)") for u in
                   ("streamable_derived_0", "streamable_derived_1", "streamable_derived_2", "streamable_handwritten")]
                  + [V("streamable_complete"), V("streamable_complete_0"), V("streamable_complete_1"), V("streamable_complete_2")]
                  + [N("native_roundtrip_ground", "roundtrip_ground", thorough_task="roundtrip_ground:thorough")],
    "assumptions": _STREAM_ASSUME,
    "not_covered": [
        "round-trip direction decode(encode(x)) == x: proved up to the encoding (from_bytes / from_bytes_unchecked of the encoding of a well-formed value succeed and return a value with that very encoding; parse succeeds wherever such an encoding starts) for the core impls (unit streamable_complete) and every derive(Streamable) struct of chia-protocol (units streamable_complete_0..2, field-by-field prefix chain generated from the declarations); that equal encodings mean equal values (injectivity of the encoding) is not machine-checked, and the seven hand-written codecs, String, BLS elements and derived enums are assumed there. Ground side for all of them - task roundtrip_ground draws values of every #[streamable] type the chia-protocol sources declare (list rebuilt from the sources on every run) and of the core impls with the crate's own Arbitrary impls, plus lists around the 2 MiB pre-allocation cap, and demands from_bytes(to_bytes(x)) == x for both decoders, identical re-encoding, hash == sha256(encoding) and rejection of one extra / one missing byte",
        "[T;N], PublicKey/Signature impls and derived enums (declared opaque with an assumed Streamable contract); String and Program are proved in unit streamable_handwritten and assumed, with that contract, where they occur as fields elsewhere",
        "derive(Streamable) impls outside chia-protocol (chia-consensus owned conditions, chia-datalayer)",
    ],
}
PROPS["C14"] = {
    "level": "proof",
    "technique": "Verus safety obligations generated from the real decoder bodies: every index, cast, addition, unwrap and loop in read_bytes and the covered impls; explicit allocation-cap obligation on Vec::with_capacity; from_bytes trailing/missing-bytes postcondition",
    "level_text": "Deductive proof that for every byte string and cursor position, read_bytes and every covered parse impl neither index out of range nor overflow (pos <= len is an invariant of every parse), terminate (loops bounded by the u32 length prefix), allocate at most 2 MiB up front, and from_bytes rejects trailing or missing bytes; stream/update_digest/hash have no precondition beyond what parse establishes (wf).",
    "level_note": "Same impl coverage and assumptions as C13. Memory = capacity argument of with_capacity; time = iteration counts.",
    "components": [V("streamable_core"), V("streamable_derived_0"), V("streamable_derived_1"), V("streamable_derived_2"),
                   V("streamable_handwritten"), N("native_pos_v2_hash", "pos_v2_hash"),
                   N("native_roundtrip_ground", "roundtrip_ground", thorough_task="roundtrip_ground:thorough"),
                   # memory: the largest single allocation request of every decoder on hostile length prefixes (counting allocator)
                   N("native_alloc_ground", "alloc_ground")],
    "assumptions": _STREAM_ASSUME,
    "not_covered": [
        "[T;N], BLS element decoders; clvmr serialized_length_from_bytes (uninterpreted: Program::parse is proved to consume exactly the length it reports, after checking it against the buffer)",
        "derive(Streamable) impls outside chia-protocol",
    ],
}

PROPS["C17"] = {
    "level": "proof",
    "technique": "Verus contracts on the real tree_hash_atom/tree_hash_pair and the iterative tree_hash stack machine (extracted verbatim) against the recursive definition th(); tree_hash_cached with the TreeCache invariant; curry_tree_hash / curry_and_treehash against the tree hash of the curried program (unit curry); exhaustive native evaluation of the 24 precomputed small-atom hashes",
    "level_text": "Deductive proof for every allocator tree (any depth/width/sharing, since th is a function of the abstract tree): tree_hash returns sha256(1‖atom) / sha256(2‖th l‖th r) recursively, never underflows its stacks and terminates (measure 2*size). The small-atom shortcut is sound because the 24 table constants are recomputed exhaustively.",
    "level_note": "Assumed: Sha256 ghost model over an uninterpreted sha256; clvmr Allocator::node contract. tree_hash_cached with the TreeCache invariant (every memoised hash is the tree hash of its node, for any call history) is proved in unit tree_hash; curry_tree_hash and fast_forward's curry_and_treehash / curry_single_arg are proved in unit curry against the tree hash of the curried program (a (q . program) (c (q . arg) ... 1)); tree_hash_from_bytes is the composition of an assumed decoder and tree_hash_cached.",
    "components": [V("tree_hash"), N("native_tree_hash_precomputed", "tree_hash_precomputed"), V("curry"), V("tree_hash_bytes"), N("native_tree_hash_ground", "tree_hash_ground"), N("native_curry_ground", "curry_ground"),
                   # the curried singleton hash fast_forward computes from hashes alone, on shipped spends incl. a non-standard launcher
                   N("native_ff_ground", "ff_ground")],
    "assumptions": ["Sha256 ghost model, sha256 uninterpreted", "clvmr Allocator::node / atom contracts (shims/clvmr.rs)"],
    "not_covered": [
        "tree_hash_from_bytes is proved (unit tree_hash_bytes) to be the tree hash of whatever node_from_bytes_backrefs decodes, and an error exactly when that fails; the decoder itself (clvmr) is an assumed deterministic collaborator",
    ],
}

PROPS["C12"] = {
    "level": "proof",
    "technique": "Verus contracts on the real merkle_set.rs (get_bit, encode_type, hash, radix_sort with its partition loop and recursive sub-slice calls, compute_merkle_set_root) against a trie specification defined over the *set* of leaves; Verus contracts on the real merkle_tree.rs lookup (generate_proof_impl, other_included, get_root, generate_proof, validate_merkle_proof) against what a tree proves about an item",
    "level_text": "Deductive proof for every slice of 32-byte leaves (any length < 2^31, any order, with duplicates, shared prefixes down to bit 255): compute_merkle_set_root equals root_spec(set of leaves), where root_spec is the collapsed binary-trie hash written from the statement; because the spec is a function of the set, order and duplicates cannot matter. Includes index safety, i32 arithmetic, termination (256 - depth) and unreachability of the panic!.",
    "level_note": "sha256 uninterpreted (Sha256 ghost model). Unit merkle_tree: for every well-formed node vector, generate_proof_impl answers included only at a leaf equal to the item, excluded only at an empty node / a different leaf / a double-leaf node without the item reached along the item's bits, and errs exactly when the walk ends in a truncated sub-tree; get_root is the root entry's hash (leaf hashed, empty = 32 zero bytes); validate_merkle_proof gives that verdict only when the deserialized tree's root equals the claimed root, otherwise errs. ASSUMED: the proof deserializer (stack machine) yields a well-formed tree of depth <= 255 or fails; pad_middles_for_proof_gen terminates. Soundness proper (that no proof for a given root validates with the opposite verdict) needs collision-freeness and the proof deserializer: it is decided on ground instances only - 107 735 obligations over 21 leaf sets (splits at bits 0..255, duplicates, dense low bits): from_leafs root == compute_merkle_set_root, every member / probed non-member has a generated proof that validates with the true verdict, and no corrupted proof (every single-bit flip of every byte, appended / dropped bytes, proofs issued for other items, empty siblings moved to the other side - the last two keep the root hash) validates with the opposite verdict.",
    "components": [V("merkle_set"), V("merkle_tree"), N("native_merkle_ground", "merkle_ground", thorough_task="merkle_ground:thorough")],
    "assumptions": ["Sha256 ghost model, sha256 uninterpreted", "<[T]>::swap, u8::from(bool) std contracts", "Verus's model of `&mut range[..k]` sub-slice borrows"],
    "not_covered": [
        "merkle_tree.rs: MerkleSet::from_leafs/get_root agreement with compute_merkle_set_root for all sets (ground instances only)",
        "deserialize_proof_impl (stack machine; leaf-position audit, depth limit, trailing bytes) and the hash-consistency half of validate_merkle_proof soundness; generate_proof completeness (the bytes it emits re-validate)",
        "Python bindings (wheel/src/api.rs)",
    ],
}

PROPS["C15"] = {
    "level": "proof",
    "technique": "Verus contracts on the real BlsCacheData::put, on the per-pair closure of BlsCache::aggregate_verify (extracted verbatim as a function), on aggregate_verify's verdict combination, update and evict, over an assumed LinkedHashMap model: capacity invariant, cache-soundness invariant and cache-independence of the verdict; native evaluation of ground verdict-agreement obligations (cache vs plain, infinity key) on the real crates",
    "level_text": "Deductive proof, for every prior cache content (inductive invariants, hence every history of calls): put/update/evict/aggregate_verify keep the number of entries <= capacity; every cached pairing is the pairing of the (pk, msg) it is keyed by (soundness invariant); the value the per-pair closure hands to aggregate_verify_gt equals e(H(pk||msg), pk) whether it came from the cache or not, and an infinity key is recorded on hits and misses alike; hence BlsCache::aggregate_verify's verdict is agv_gt(sig, pairings(pk,msg list)) && no key is infinity - a function of its arguments alone, independent of cache contents, capacity and evictions. aggregate_verify_gt itself (unit bls_gt) is proved to be: valid signature and (no pairings: the identity signature; otherwise product of the pairings == e(sig, g1)), over uninterpreted group operations. That this equals the plain aggregate_verify verdict is pairing algebra inside blst: only ground instances are decided, by evaluating the real code on fixed pair lists with cold and warm caches.",
    "level_note": "Mutex<BlsCacheData> is read as BlsCacheData and &self as &mut self (counted rewrites): the lock is dropped, i.e. the single-threaded view. Schedules (interleavings of concurrent verifications) are NOT covered: Kani has no threads and Verus would need the code rewritten onto its own lock types. The generic (Pk: Borrow<PublicKey>, Msg: AsRef<[u8]>, impl IntoIterator) signature is monomorphised to &Vec<(&PublicKey, &[u8])>; iterator.map(closure) consumed by aggregate_verify_gt is modelled by an eager loop calling the extracted closure (verdict-equivalent: aggregate_verify_gt stops early only when it answers false). Assumed: SHA-256 collision-free, compressed public-key encoding injective, aggregate_verify_gt a function of (sig, pairings), LinkedHashMap/NonZeroUsize contracts (read from linked-hash-map 0.5.6).",
    "components": [V("bls_cache"), N("native_bls_cache_ground", "bls_cache_ground"), V("bls_gt")],
    "assumptions": ["linked_hash_map::LinkedHashMap insertion-ordered map model (shims/lhm.rs)", "blst pairing algebra (foreign code): hash_to_g2, pair, aggregate_verify_gt are uninterpreted functions of their arguments",
                    "SHA-256 treated as collision-free; PublicKey::to_bytes injective with 48 bytes", "single-threaded view of the Mutex (lock dropped by rewrite)"],
    "not_covered": [
        "interleavings of concurrent verifications at lock granularity (schedules quantifier)",
        "general agreement of verify / aggregate_verify / aggregate_verify_gt (pairing algebra in blst); only ground instances",
        "BlsCache::update stores a caller-supplied pairing: soundness of what the caller supplies is the caller's obligation (validate_clvm_and_signature)",
    ],
}

PROPS["C18"] = {
    "level": "proof",
    "technique": "Verus contracts on the real BlockStatusCache methods (representation invariant, freshness precondition of add_leaf), on the insertion sites insert_entry_to_blob and upsert, on internal_hash/calculate_internal_hash and ProofOfInclusion::{root_hash,valid}; native evaluation of fixed operation histories on the real crate; BOUNDED native exploration of every operation history up to a stated length against a plain map (labelled bounded, not counted as proved)",
    "level_text": "Deductive proof that the key/hash/free-index cache keeps its invariant (one index per key and per hash, same index sets, none free) under every add/remove, that a leaf can only be written under a fresh key and hash (a proof obligation at every insertion site under contract: upsert now discharges it), that a failed cache operation changes nothing, and that ProofOfInclusion::valid is exactly the per-layer internal-hash chain ending in root_hash. Whole-history equivalence with a plain map is NOT proved; fixed histories (duplicate keys/hashes in batch_insert, upsert onto another leaf's hash, duplicate insert) are decided by evaluating the real code.",
    "level_note": "Assumed: vstd HashMap model + key model for KeyId/Hash, IndexSet as a finite set, Sha256 ghost model, and the helper contracts of MerkleBlob (get_leaf_by_key consistency between blob bytes and cache, mark_lineage_as_dirty/insert framing). batch_insert, delete, tree-shape invariants over the blob bytes, dirty-hash propagation and reload equivalence are not under contract.",
    "components": [V("blob_cache"), N("native_datalayer_ground", "datalayer_ground"),
                   B("bounded_datalayer_histories_4", "datalayer_histories:4",
                     "BOUNDED stand-in for MerkleBlob::{insert, delete, batch_insert} (outside Verus's subset): every operation history of length <= 4 over a 21-operation alphabet (keys 1..8; duplicate keys and hashes, deletes down to 0/1/2 leaves, free-index reuse, batches of 0..5) on the real crate against a plain map with unique keys and hashes: the verdict of every insert / delete / upsert / batch_insert, content, check_integrity, failed-op-unchanged, reload, independent root, inclusion proofs", tier="quick-only"),
                   B("bounded_datalayer_histories_6", "datalayer_histories:6",
                     "BOUNDED: as above with history length <= 6", tier="thorough-only", timeout=7200),
                   B("bounded_datalayer_prefixed_4", "datalayer_histories_prefixed:4",
                     "BOUNDED: the same exploration started from five populated trees (5, 7 and 8 leaves from batches, 3 leaves one by one, 3 leaves plus a new root): every history of at most 4 further operations", tier="quick-only"),
                   B("bounded_datalayer_prefixed_5", "datalayer_histories_prefixed:5",
                     "BOUNDED: as above with at most 5 further operations", tier="thorough-only", timeout=3600)],
    "assumptions": ["HashMap/IndexSet models", "blob-bytes/cache consistency as assumed helper contracts of MerkleBlob"],
    "not_covered": [
        "equivalence with a plain map over arbitrary histories; tree-shape invariant over the blob bytes",
        "batch_insert body (chunks/slice patterns outside Verus's subset) - its duplicate handling is decided on fixed histories only",
        "delete, dirty-hash propagation / calculate_lazy_hashes, reload equivalence, get_proof_of_inclusion for every key",
    ],
}

PROPS["C02"] = {
    "level": "proof",
    "technique": "Verus contracts on the real process_single_spend / compute_coin_id / Coin::coin_id / parse_conditions: coin-id formula over the canonical amount, double-spend exclusion via the spent-coin map, duplicate-output exclusion (NewCoin identity) and exact totals; validate_conditions' conservation clauses (iff); run_spendbundle's recorded spend identity (declared puzzle hash == tree hash of the reveal)",
    "level_text": "Deductive proof: every accepted spend has a 32-byte parent and puzzle hash and a canonical amount; its coin id is sha256(parent ‖ puzzle hash ‖ canon(amount)) (and Coin::coin_id computes the same formula); the id was not spent before in the bundle (else DoubleSpend); removal_amount grows by exactly the coin amount, addition_amount by exactly the created amounts, no (puzzle hash, amount) is created twice by one spend, u128 totals cannot overflow.",
    "level_note": "The final conservation test in validate_conditions (additions <= removals, reserved fee <= removals - additions) is proved in unit validate_conds (iff); in run_spendbundle (unit drivers) the spend recorded for each coin is proved to carry the coin's own parent id, its declared puzzle hash - checked equal to the tree hash of the revealed puzzle - and its amount; run_block_generator2 computes the puzzle hash itself (tree_hash_cached of the reveal). Ground side (task paths_ground): every accepted bundle's reported (coin id, puzzle hash, amount) triples are recomputed from the revealed puzzles, and bundles whose second/third/first spend declares an honest spend's puzzle hash over a different reveal must be rejected. sha256 uninterpreted; NewCoinSet identity assumed to be (puzzle_hash, amount) as NewCoin's PartialEq/Hash implement it.",
    "components": [V("conditions_effects"), V("int_encoders"), V("validate_conds"), V("drivers"), N("native_paths_ground", "paths_ground"),
                   # "the reported puzzle hash is the tree hash of the revealed puzzle": the two routines the drivers call for it
                   # (tree_hash in run_spendbundle, tree_hash_cached over one shared TreeCache in run_block_generator2) are proved
                   # equal to the definition in unit tree_hash (C17's unit), and compared with it on ground atoms and trees
                   V("tree_hash"), N("native_tree_hash_ground", "tree_hash_ground")],
    "assumptions": ["Sha256 ghost model", "HashMap<Arc<Bytes32>, usize> / HashSet<NewCoin> insertion semantics (shims/cond_env.rs)"],
    "not_covered": [
        "run_block_generator2: that the node handed over as puzzle hash is tree_hash_cached(puzzle reveal) is in the extracted text but not a clause of its contract (the allocator is opaque there)",
        "that the conditions a puzzle outputs are what its author intended (CLVM execution)",
    ],
}

PROPS["C05"] = {
    "level": "proof",
    "technique": "Verus contracts on the real make_aggsig_final_message, u64_to_bytes, Coin::coin_id, check_agg_sig_unsafe_message, to_key, on parse_conditions' signature-pair construction (second overlay of the same extracted text), on validate_signature and on validate_clvm_and_signature, all against one signed-text spec aggsig_suffix(op, coin attributes, domain constant); native evaluation of ground verdicts of all four verification paths",
    "level_text": "Deductive proof: (1) the helper that recomputes a spend's final signed message appends exactly the coin attributes selected by the opcode followed by that opcode's domain constant (amount in canonical form, AGG_SIG_ME over sha256(parent || puzzle hash || canon(amount))); (2) whenever parse_conditions accepts, the (public key, text) list has grown by exactly one pair per AGG_SIG_* condition, in order, with text = message || the same aggsig_suffix, nothing for any other condition, nothing at all under DONT_VALIDATE_SIGNATURE (fold pkm_run over the condition list, for all allocator trees); (3) an AGG_SIG_UNSAFE message is rejected exactly when it ends with one of the seven domain constants; to_key accepts exactly decodable non-infinity 48-byte keys; (4) validate_signature skips only under DONT_VALIDATE_SIGNATURE and otherwise returns the verifier's verdict on exactly the collected list; validate_clvm_and_signature accepts exactly when aggregate_verify_gt accepts the pairing of every collected pair (each occurrence, in order) and hands back those pairings under their sha256 keys. Ground: 348 verdicts (8 opcodes x coin amounts at every canonical-length boundary x multiplicities x {full, one occurrence missing, one text altered}) agree on block/no-cache, cold cache, warm cache and mempool paths with the independently computed expectation.",
    "level_note": "That an aggregate signature verifies exactly for the right multiset of (key, message) pairs is pairing algebra inside blst (assumed: the three verifiers are uninterpreted functions of the signature and the sequence they are handed). run_spendbundle / run_block_generator2 (CLVM execution) between parse_conditions and the verifiers are outside reach; the ground verdicts exercise them end to end.",
    "components": [V("aggsig"), V("int_encoders"), V("conditions_aggsig"), V("sig_paths"), N("native_sig_paths_ground", "sig_paths_ground")],
    "assumptions": ["blst: key decoding (pk_decode), hash_to_g2, pair and the three aggregate verifiers are uninterpreted functions of their arguments", "Sha256 ghost model",
                    "std iterator adaptors `.iter().map(|(pk, msg)| (pk, msg.as_slice()))` and `.iter().map(|t| &t.1)` borrow every element in order (shim_pair_refs, shim_seconds)"],
    "not_covered": [
        "pairing algebra: that aggregate verification accepts exactly the right multiset (blst); only ground instances",
        "the drivers between parse_conditions and the verifiers (run_spendbundle, run_block_generator2: CLVM execution); ground instances only",
    ],
}
PROPS["C08"] = {
    "level": "proof",
    "technique": "Verus contracts on the real clvm_bytes_len and calculate_generator_length (extracted; generic parameter monomorphised) against the CLVM serialisation-length spec of (q . (spends)); QUOTE_BYTES lemma; Verus contracts on the real calculate_base_cost and run_spendbundle (unit drivers); native evaluation of ground comparisons of the mempool path with the block path over plain / back-reference / builder generators",
    "level_text": "Deductive proof for every list of coin spends (any reveals, any u64 amounts): the predicted generator length equals the serialized length of the quoted spend list, 5 + sum(39 + |puzzle| + ser_len(canon(amount)) + |solution|) as derived from the serialisation format, and the quote-wrapper overhead is exactly 2 bytes.",
    "level_note": "Unit drivers: calculate_base_cost is proved to charge the serialized length without the 2-byte quote wrapper (interned virtual bytes under INTERNED_GENERATOR, whatever the number of spends), run_spendbundle to hand the parser (parent id, canonical amount) for every coin and to report size + execution + condition cost. Agreement of the two paths over generators built from the bundle needs CLVM execution: decided on 224 ground comparisons (28 bundles: coin amounts at every canonical-length boundary, 0/1/2/5 spends, rejected bundles) x plain / back-reference / builder generators x with and without INTERNED_GENERATOR: same verdict, same conditions, cost offset exactly the quote overhead, predicted length == emitted length.",
    "components": [V("generator_len"), V("int_encoders"), V("drivers"), N("native_paths_ground", "paths_ground"),
                   # the one step only the mempool path takes after a spend is parsed: the puzzle fingerprint (its verdict is
                   # run_spendbundle's verdict when COMPUTE_FINGERPRINT is set)
                   V("fingerprint"),
                   # the mempool's admission entry point around run_spendbundle checks the aggregate signature against every
                   # collected pair, with multiplicity, exactly like block validation (C05's unit and ground verdicts)
                   V("sig_paths"), N("native_sig_paths_ground", "sig_paths_ground"),
                   # the builders produce generators too: what they emit must validate like the bundles they were given (the
                   # running-estimate clause of a fresh builder is C10's statement and is reported there)
                   V("builders"), V("builders_interned"), N("native_builders_ground", "builders_ground", thorough_task="builders_ground:thorough", exclude_id=r"/fresh-estimate$")],
    "assumptions": ["reveals are serialized CLVM (their byte length is their serialized length)", "Program::as_ref returns the wrapped bytes"],
    "not_covered": [
        "run_spendbundle vs run_block_generator2 equivalence for all bundles (CLVM execution): ground comparisons only",
        "solution_generator / build_generator actually emit that many bytes; back-reference serialisation; block builders (C10)",
    ],
}
PROPS["C19"] = {
    "level": "proof",
    "technique": "Verus contracts on the real fast_forward_singleton (guards + three-field frame over assumed clvm-traits codecs), compute_puzzle_fingerprint and hash_atom_list (framed-atom stream spec, hint rule tied to the condition parser's by a lemma), MempoolVisitor::{new_spend, condition, post_spend} and EmptyVisitor, all extracted verbatim",
    "level_text": "Deductive proof for every allocator tree, coin triple and flag word: (1) fast_forward_singleton returns Ok only for a genuine singleton spend of the stated coin - odd amounts, one puzzle hash shared by coin, new parent and new coin and equal to the tree hash of the revealed puzzle, singleton mod hash in both the curried struct and the revealed module, solution amount == coin amount, lineage proof hashing to the coin's parent id, inner puzzle hash matching, new coin a child of new parent - and the solution it returns decodes to the original with exactly lineage parent, parent amount and coin amount replaced; (2) the dedup fingerprint is sha256 of the length-framed atoms of every known condition with a fixed arity per opcode, a CREATE_COIN hint framed exactly when the parser's hint rule reports one (lemma against the C01 rule table), anything else refused (iff); (3) a signature or message condition always clears dedup eligibility and nothing else touches it during parsing; fast-forward eligibility is cleared exactly by the listed commitments; post_spend keeps dedup only when created value >= consumed and fast-forward only when the spend re-creates (own puzzle hash, own amount); visitors change nothing but the flags.",
    "level_note": "Assumed: the derived clvm-traits codecs of CurriedProgram<SingletonArgs>/SingletonSolution (FromClvm total function of the tree, ToClvm then FromClvm = identity), curry_and_treehash as an uninterpreted function, tree_hash's contract (proved in unit tree_hash), HashSet iterator adaptors any/map/sum (shims). Re-running the rewritten solution is CLVM execution (out of reach).",
    "components": [V("mempool_visitor"), V("fast_forward"), V("fingerprint"), V("curry"), N("native_dedup_ground", "dedup_ground"), N("native_ff_ground", "ff_ground")],
    "assumptions": ["fewer than 2^31 conditions per spend (allocator limit) as precondition of condition()", "clvm-traits derived codecs (uninterpreted, round-trip assumed)",
                    "SHA-256 ghost model; u32::to_be_bytes uninterpreted"],
    "not_covered": [
        "fingerprint injectivity as a lemma over the framed stream (prefix-freeness of the framing + SHA-256 collision-freeness): the stream spec is proved, the injectivity argument over it is not machine-checked",
        "MempoolVisitor::post_process (cross-spend)",
        "the rewritten solution runs successfully and creates the same coins (CLVM execution)",
    ],
}

PROPS["C09"] = {
    "level": "proof",
    "technique": "Verus contracts on the real parse_coin_spend and get_puzzle_and_solution_for_coin (extracted verbatim) against a first-match spec over the generator output; on the real additions_and_removals (removal and CREATE_COIN scan per spend, loop invariants, lemma against the condition parser's CREATE_COIN rule) and get_coinspends_for_trusted_block (function contract against the list of coin spends of the generator output); native evaluation of fixed generators comparing additions_and_removals with the validated conditions for every memo/hint shape",
    "level_text": "Deductive proof for every generator output tree and coin: the lookup returns exactly the first spend whose parent id, amount and tree hash of the puzzle reveal match the coin (and fails otherwise), with parse_coin_spend accepting exactly well-formed (parent puzzle amount solution) entries. additions_and_removals (unit trusted_additions): for every spend of the output the removal recorded is the coin (parent atom, tree hash of the revealed puzzle, parsed amount) under its own coin id, and the additions recorded are exactly the CREATE_COIN scan of the spend's condition list, in order, each with the hint rule \"first element of the memo list if it is an atom of 1..=32 bytes\"; lemma_scan_agrees_with_parser proves that whenever the validating parser's rule table reads a condition as CreateCoin(ph, amount, hint) - in lenient and strict mode - the scan records the same puzzle hash, amount and hint. get_coinspends_for_trusted_block returns exactly the coin spends of the generator's output list (every entry of at least four elements, in order, nothing skipped or added, coin = (parent, tree hash of puzzle, amount), programs serialized). Whole-block agreement with full validation additionally runs CLVM and is decided on fixed generators (17 shapes) by evaluating the real code.",
    "level_note": "The allocator a helper builds internally is named through deterministic-collaborator specs (make_allocator, node_from_bytes_backrefs, setup_generator_args, run_program as uninterpreted functions of their inputs: ASSUMED deterministic), the clvm-traits tuple decoders through shape contracts (ASSUMED). additions_and_removals has a function contract too: what it returns is aar_all over the entries of the generator's output list - every entry, in order, nothing skipped or added, each puzzle run on the allocator the previous run left (allocators only append: ASSUMED frame `extends`, children of a handed-out node were handed out before it) - plus the allocator-free part (every removal id is the id of its coin, every addition's parent is a removal, hints have 1..=32 bytes). SpendBundle::additions (unit bundle_additions) is proved to return, spend by spend and in order, exactly the CREATE_COIN scan of each puzzle's output under the id of the coin spent (function contract; Ok direction only - its private cost budget is approximate by design), with a lemma that its CREATE_COIN rule agrees with the validating parser's. get_coinspends_with_conditions_for_trusted_block is decided on ground instances (23 generators: no memo, hints of 0/1/3/31/32/33 bytes, pair and atom memos, extra arguments and improper terminators after the memo list); for each, additions_and_removals, get_coinspends_for_trusted_block (recovered spends re-validated through run_spendbundle) and SpendBundle::additions are compared with run_block_generator2. tree_hash_cached's contract is proved in unit tree_hash and assumed here.",
    "components": [V("trusted_lookup"), V("trusted_additions"), V("bundle_additions"), N("native_trusted_paths_ground", "trusted_paths_ground")],
    "assumptions": ["tree_hash_cached contract (proved in unit tree_hash)", "clvmr Allocator accessor contracts", "clvm-traits tuple decoders (shape contracts)", "collaborators deterministic (uninterpreted result functions)", "Coin::coin_id (proved in unit int_encoders), extract_n (proved in unit drivers)"],
    "not_covered": [
        "whole-block agreement of additions_and_removals / get_coinspends_for_trusted_block with run_block_generator2 for all generators (both run the same CLVM programs; the per-spend and per-condition rules are proved equal, the composition is not), get_coinspends_with_conditions_for_trusted_block and SpendBundle::additions: decided on 17 fixed generators covering every memo / hint / trailing-argument shape, where each is compared with full validation (additions with hints, removals, recovered coin spends re-validated as a bundle, SpendBundle::additions)",
    ],
}

PROPS["C10"] = {
    "level": "proof",
    "technique": "Verus contracts on the real BlockBuilder::{add_spend_bundles, cost, finalize} (compressed builder, extracted; generic iterator parameter monomorphised at &[SpendBundle]) with a representation invariant over any call history, under assumed contracts on clvmr's incremental Serializer; native evaluation of ground builder histories of both builders (offers landing on the limit, late rejects with signed bundles) through full validation of the finalized generator",
    "level_text": "Deductive proof (compressed builder), inductive over every sequence of add attempts: each attempt is all-or-nothing (a rejected attempt leaves declared cost, signature and serializer state exactly unchanged, an accepted one adds exactly the declared cost and the aggregate of exactly the batch's signatures), block cost plus closing bytes never exceeds the block limit, finalize's two assert!s are unreachable and the returned cost is <= the limit and <= the running estimate; no arithmetic overflow for declared costs <= the limit.",
    "level_note": "ASSUMED: Serializer::add/restore/size contracts (restore returns to the exact pre-add state; closing nil costs <= 2 bytes), tree construction calls, Signature::aggregate as uninterpreted group addition. That the finalized generator decodes to exactly the accepted spends and costs what consensus charges depends on serializer correctness and CLVM (not covered). The interned builder is decided on ground histories only: 116 fixed histories of both builders (declared costs landing on the limit in half-byte steps -6..+40, accept / late-reject / accept with signed bundles, batches with truthful costs) are run on the real code: running estimate within the limit after every step, finalize total, the generator passes run_block_generator2 under the returned signature, spends exactly the accepted coins, costs exactly the returned cost, and the same history without the refused offers gives the same output. One known finding: a fresh compressed builder's cost() underestimates (known-findings.txt).",
    "components": [V("builders"), V("builders_interned"), N("native_builders_ground", "builders_ground", thorough_task="builders_ground:thorough")],
    "assumptions": ["clvmr incremental Serializer contracts", "declared cost <= max block cost, sane constants, < 2^32 rejected attempts"],
    "not_covered": [
        "InternedBlockBuilder: its cost / undo arithmetic is under contract for every history (unit builders_interned: all-or-nothing, exact per-spend estimate = isolated interned size + one cons cell, estimate within the limit, finalize within limit and estimate); that the estimate really bounds the interned size of the finished generator is the interner's triangle inequality, a precondition of finalize there (ASSUMED) and decided on ground histories",
        "finalized generator decodes to exactly the accepted spends; returned cost equals the consensus cost of that generator: ground histories only",
    ],
}
NOT_APPLICABLE["C07"] = "the legacy path's spend list is produced inside CLVM by the ROM_BOOTSTRAP_GENERATOR bytecode executed by clvmr: relating it to the native Rust loop needs a verified CLVM semantics, which no contract within reach of Verus/Kani provides; the Rust-side pieces it shares with the native path (parse_spends loop body = process_single_spend, parse_conditions) are under contract for C01-C04"

for _p in PROPS:
    NOT_APPLICABLE.pop(_p, None)
