"""Run Verus on an assembled unit file; classify the outcome.

Outcome classes (DESIGN §1.3):
  ok         every function verified
  violation  at least one *semantic* obligation failed (postcondition, precondition of a callee,
             overflow, assertion, invariant, decreases, ...), no front-end error
  undecided  front-end/type error, unsupported construct, rlimit, tool crash
"""
import json
import os
import re
import subprocess
import time

SEMANTIC = [
    "postcondition not satisfied",
    "precondition not satisfied",
    "possible arithmetic underflow/overflow",
    "possible division by zero",
    "assertion failed",
    "invariant not satisfied",
    "loop invariant not",
    "decreases not satisfied",
    "possible bit shift underflow/overflow",
    "unreachable",
    "could not show termination",
    "failed to satisfy",
    "possible truncation",
    "index out of bounds",
    "assert_by_compute",
    "assertion failed in by(compute)",
    "constant evaluates to",
]
RESOURCE = ["Resource limit (rlimit) exceeded", "rlimit", "timed out", "solver"]


class Diag:
    def __init__(self, level, message, spans, rendered):
        self.level = level
        self.message = message
        self.spans = spans  # list of (line_start, line_end, is_primary, label)
        self.rendered = rendered

    def primary_line(self):
        for s in self.spans:
            if s[2]:
                return s[0]
        return self.spans[0][0] if self.spans else None

    def label_line(self, word):
        for s in self.spans:
            if s[3] and word in s[3]:
                return s[0]
        return None


class VerusResult:
    def __init__(self):
        self.status = "undecided"
        self.reason = ""
        self.verified = 0
        self.errors = 0
        self.functions = {}   # name -> {success, time_ms, rlimit, mode}
        self.diags = []
        self.semantic = []    # Diag list
        self.other = []       # Diag list (front-end etc.)
        self.wall_s = 0.0
        self.smt_ms = 0
        self.total_ms = 0
        self.cmd = ""
        self.raw_stderr = ""


def run(path, rlimit=30, extra=None, threads=None, timeout=2400, multiple_errors=4):
    cmd = ["verus", path, "--output-json", "--time-expanded", "--error-format=json",
           "--multiple-errors", str(multiple_errors), "--rlimit", str(rlimit)]
    if threads:
        cmd += ["--num-threads", str(threads)]
    if extra:
        cmd += extra
    res = VerusResult()
    res.cmd = " ".join(cmd)
    t0 = time.time()
    try:
        p = subprocess.run(cmd, capture_output=True, text=True, timeout=timeout,
                           cwd=os.path.dirname(path))
    except subprocess.TimeoutExpired:
        res.wall_s = time.time() - t0
        res.reason = "verus wall-clock timeout after %ds" % timeout
        return res
    res.wall_s = time.time() - t0
    res.raw_stderr = p.stderr
    for ln in p.stderr.splitlines():
        ln = ln.strip()
        if not ln.startswith("{"):
            continue
        try:
            d = json.loads(ln)
        except ValueError:
            continue
        if "message" not in d:
            continue
        spans = [(s["line_start"], s["line_end"], s.get("is_primary", False), s.get("label"))
                 for s in d.get("spans", [])]
        # follow macro expansion to the user file line when present
        res.diags.append(Diag(d.get("level"), d["message"], spans, d.get("rendered") or ""))
    out = None
    try:
        out = json.loads(p.stdout)
    except ValueError:
        m = re.search(r"\{.*\}\s*$", p.stdout, re.S)
        if m:
            try:
                out = json.loads(m.group(0))
            except ValueError:
                out = None
    if out is None:
        res.reason = "no JSON from verus (exit %d): %s" % (p.returncode, (p.stderr or p.stdout)[-600:])
        return res
    vr = out.get("verification-results", {})
    res.verified = vr.get("verified", 0)
    res.errors = vr.get("errors", 0)
    tm = out.get("times-ms", {})
    res.total_ms = tm.get("total", 0)
    smt = tm.get("smt", {})
    res.smt_ms = smt.get("total", 0)
    for mod in smt.get("smt-run-module-times", []):
        for f in mod.get("function-breakdown", []):
            res.functions[f["function"]] = {
                "success": f.get("success"), "time_ms": f.get("time"), "rlimit": f.get("rlimit"),
                "mode": f.get("mode:") or f.get("mode"),
            }
    errs = [d for d in res.diags if d.level == "error" and not d.message.startswith("aborting due to")]
    for d in errs:
        if any(r in d.message for r in RESOURCE[:1]) or "rlimit" in d.message.lower():
            res.other.append(d)
        elif any(s in d.message for s in SEMANTIC):
            res.semantic.append(d)
        else:
            res.other.append(d)
    if vr.get("encountered-vir-error") or (res.other and not vr):
        res.status = "undecided"
        res.reason = "front-end error: " + "; ".join(d.message for d in res.other[:3])
    elif res.other:
        res.status = "undecided"
        res.reason = "non-semantic verifier error: " + "; ".join(d.message for d in res.other[:3])
    elif res.semantic or res.errors:
        if res.semantic:
            res.status = "violation"
            res.reason = "%d obligation(s) failed" % len(res.semantic)
        else:
            res.status = "undecided"
            res.reason = "verus reported %d errors but none parsed" % res.errors
    elif vr.get("success"):
        res.status = "ok"
    else:
        res.status = "undecided"
        res.reason = "verus did not report success: " + json.dumps(vr) + p.stderr[-400:]
    return res
