"""Native side-car (/verif/replay crate, links the real crates by path): counterexample search,
replay of stored counterexamples, native-eval ground obligations."""
import json
import os
import subprocess
import time

from . import assemble

VERIF = assemble.VERIF
CRATE = os.environ.get("VERIF_REPLAY_CRATE") or os.path.join(VERIF, "replay")
TARGET = os.path.join(os.environ.get("VERIF_CACHE") or os.path.join(VERIF, ".cache"), "replay-target")
REPO = assemble.REPO


# units that have an executable spec twin + input generator in /verif/replay (unit name -> side-car target)
SEARCHERS = {"time_locks": "time_locks", "int_encoders": "int_encoders", "merkle_set": "merkle_set", "tree_hash": "tree_hash"}


def _env():
    e = dict(os.environ)
    e["CARGO_TARGET_DIR"] = TARGET
    e["CARGO_NET_OFFLINE"] = "true"
    return e


def build():
    """(Re)build the side-car against /repo's current working tree."""
    lock = os.path.join(CRATE, "Cargo.lock")
    if not os.path.exists(lock):
        import shutil
        shutil.copy(os.path.join(REPO, "Cargo.lock"), lock)
    p = subprocess.run(["cargo", "build", "--release", "--offline", "--quiet"], cwd=CRATE, env=_env(),
                       capture_output=True, text=True)
    if p.returncode != 0:
        raise RuntimeError("side-car build failed: " + p.stderr[-2000:])
    return os.path.join(TARGET, "release", "verif-replay")


def search(pid, unit, failure, seed, budget_s):
    """Return a counterexample dict or None."""
    exe = build()
    p = subprocess.run([exe, "search", unit, failure.get("function") or "", str(seed), str(budget_s)],
                       capture_output=True, text=True, timeout=budget_s * 4 + 120)
    for ln in p.stdout.splitlines():
        if ln.startswith("CEX "):
            return json.loads(ln[4:])
    return None


def replay(path):
    d = json.load(open(path))
    cex = d.get("counterexample")
    if not cex:
        print("replay file carries no concrete input (no-failing-input-found); obligation:", d.get("obligation"))
        print(d.get("verifier_output") or "")
        return 1
    exe = build()
    p = subprocess.run([exe, "replay", json.dumps(cex)], capture_output=True, text=True)
    print(p.stdout, end="")
    if p.returncode == 1:
        print("REPRODUCED: property=%s obligation=%s" % (d.get("property"), d.get("obligation")))
        return 1
    if p.returncode == 0:
        print("not reproduced on the current tree")
        return 0
    print(p.stderr)
    return 2


def native_eval(c, tier="quick"):
    t0 = time.time()
    r = {"name": c["name"], "kind": "native", "backend": "native-eval", "status": "undecided", "reason": "",
         "obligations": 0, "discharged": 0, "failures": [], "trusted": ["rustc codegen of the real crates (native-eval executes the real function)"],
         "cmd": "verif-replay eval " + c["task"], "samples": []}
    try:
        exe = build()
    except Exception as e:
        r["reason"] = str(e)
        return r
    task = c["task"]
    if tier == "thorough" and c.get("thorough_task"):
        task = c["thorough_task"]
        r["cmd"] = "verif-replay eval " + task
    try:
        p = subprocess.run([exe, "eval", task], capture_output=True, text=True, timeout=c.get("timeout", 600))
    except subprocess.TimeoutExpired:
        # a run that does not finish is undecided (exit 2), never an alarm and never a crash of the check
        r["reason"] = "native-eval %s did not finish within %d s" % (task, c.get("timeout", 600))
        r["wall_s"] = time.time() - t0
        return r
    for ln in p.stdout.splitlines():
        if ln.startswith("RESULT "):
            j = json.loads(ln[7:])
            r["obligations"] = j["obligations"]
            r["discharged"] = j["discharged"]
            r["samples"] = j.get("samples", [])
            r["exhaustive"] = j.get("exhaustive", False)
            for f in j.get("failures", []):
                r["failures"].append({"id": "%s/%s" % (c["name"], f["id"]), "kind": "ground", "message": f["message"],
                                      "function": f.get("function"), "clause": f.get("clause", ""), "cex": f.get("cex"),
                                      "rendered": f["message"]})
            r["status"] = "ok" if not r["failures"] else "violation"
            if c.get("bounded"):
                # a bounded stand-in is never counted among the proved obligations
                r["backend"] = "native-bounded"
                r["bounded"] = ["%s: %s; explored %d, held %d" % (c["name"], c["bounded"], j["obligations"], j["discharged"])]
                r["bounded_explored"] = j["obligations"]
                r["obligations"] = 0
                r["discharged"] = 0
    if r["status"] == "undecided":
        r["reason"] = "native-eval produced no result: " + (p.stderr or p.stdout)[-500:]
    r["wall_s"] = time.time() - t0
    return r
