"""Assembler: template (.vrs) + real source from /repo  ->  one Verus file + line map.

Template directives (lines starting with //@):

  //@include <path-rel-to-/verif>          splice another template file here
  //@gsub <regex> =>> <replacement>         applied to every item extracted after this line
  //@extract <src> <selector>              start an extraction block; <src> is a path relative to /repo,
                                           or 'registry:<crate-dir-glob>/<path>' for a dependency source
     //@ret <name>                         name the return value:  -> T   becomes  -> (name: T)
     //@rename <new>                       rename the fn (only the defining occurrence)
     //@prefix                             raw lines placed before the item
     //@contract                           raw lines placed between signature and body '{'
     //@body_start                         raw lines placed right after body '{'
     //@body_end                           raw lines placed right before body '}'
     //@loop <k>                           raw lines placed before the '{' of loop k (1-based, source order)
     //@loop_body_start <k>                raw lines placed right after the '{' of loop k
     //@after_loop <k>                     raw lines placed right after the '}' of loop k
     //@loop_body_end <k>                  raw lines placed right before the '}' of loop k
     //@before <nth> <needle>              raw lines placed before the nth occurrence of needle in the item
     //@after <nth> <needle>               raw lines placed after  the nth occurrence of needle
     //@arm_end <nth> <needle>             raw lines placed at the end of the `=> { .. }` block of the match arm containing needle
     //@sub <count> <regex> =>> <repl>      regex rewrite on the item text with an expected match count
     //@derive A, B                        replace the item's derive list (default: only Clone/Copy survive)
     //@keep_attrs                         keep all attributes (default: only whitelisted derives survive)
     //@header_only                        emit only the signature + contract followed by ';' (trait method decl)
     //@sig_only_external                  emit signature + contract with body replaced by unimplemented!()
                                           and #[verifier::external_body]  (used to *assume* a contract)
     //@no_canary                          do not place a canary in this item
  //@end

Everything else is copied verbatim.  Every output line carries an origin used to map verifier
diagnostics back to (repo file, line) or (template file, line).
"""
import glob
import hashlib
import os
import re

from . import rustlex

VERIF = os.path.dirname(os.path.dirname(os.path.abspath(__file__)))
REPO = os.environ.get("VERIF_REPO", "/repo")
REGISTRY = os.path.expanduser("~/.cargo/registry/src")

DERIVE_KEEP = {"Clone", "Copy"}


class Undecided(Exception):
    """Anchor lost / rewrite count mismatch / unsupported: exit 2, never an alarm."""


class Line:
    __slots__ = ("text", "origin")

    def __init__(self, text, origin):
        self.text = text
        self.origin = origin  # ("repo", relpath, lineno) | ("tmpl", relpath, lineno)


_VIRTUAL = {}


def expand_macro(spec):
    """expand:<repo-rel-file>:<macro_rules name>:<arg> -> text of the single arm with $var replaced by arg.
    Line structure of the macro body is preserved; origin lines are those of the macro definition."""
    _, f, name, arg = spec.split(":", 3)
    path = os.path.join(REPO, f)
    if not os.path.exists(path):
        raise Undecided("anchor lost: file %s missing" % f)
    src = open(path, encoding="utf-8").read()
    try:
        item, toks = rustlex.find_item(src, "macro:" + name)
    except KeyError as e:
        raise Undecided(str(e))
    # body: { ($t:ty) => { ... }; }
    k = item.body_tok + 1
    if toks[k].text != "(":
        raise Undecided("macro %s: unsupported shape" % name)
    pc = rustlex.match_close(toks, k)
    var = None
    for q in range(k, pc):
        if toks[q].text == "$":
            var = toks[q + 1].text
    k = pc + 1
    while toks[k].text != "{":
        k += 1
    bc = rustlex.match_close(toks, k)
    a, b = toks[k].end, toks[bc].start
    body = src[a:b]
    if var is None:
        raise Undecided("macro %s: no variable" % name)
    body = re.sub(r"\$" + var + r"\b", arg, body)
    # keep line numbering: prefix with as many newlines as precede the body in the file
    return "\n" * src.count("\n", 0, a) + body


def _find_closures(src, toks, item):
    """block closures `|..| [-> Ret] { .. }` inside a fn item, in source order: (start, body_open, end, ret_text)"""
    if item.body_tok < 0:
        raise Undecided("anchor has no body: " + item.name)
    lo, hi = item.body_tok + 1, rustlex.match_close(toks, item.body_tok)
    found = []
    i = lo
    while i < hi:
        t = toks[i]
        if t.text in ("|", "||") and toks[i - 1].text in ("(", ",", "=", "move", "{", ";", "return"):
            j = i
            if t.text == "|":
                j = i + 1
                while j < hi and toks[j].text != "|":
                    if toks[j].text in ("(", "[", "{"):
                        j = rustlex.match_close(toks, j)
                    j += 1
            j += 1
            ret = ""
            if toks[j].text == "-" and toks[j + 1].text == ">":
                r0 = j + 2
                while toks[j].text != "{":
                    j += 1
                ret = " -> " + src[toks[r0].start:toks[j - 1].end]
            if toks[j].text == "{":
                bc = rustlex.match_close(toks, j)
                found.append((toks[i].start, toks[j].start, toks[bc].end, ret))
                i = bc
        i += 1
    return found


def extract_closure(spec):
    """closure|<repo-rel-file>|<fn selector>|<k>|<name> -> `fn <name>(__CLOSURE_PARAMS__) [-> Ret] { body }` where body is the
    verbatim block of the k-th closure expression (`|..| [-> Ret] { .. }`) inside the selected function.  The parameter
    list (closures do not spell their parameter types, and captured variables become parameters) is supplied by the
    template through a counted //@sub of __CLOSURE_PARAMS__.  Line numbers are those of the closure in the file."""
    _, f, sel, k, name = spec.split("|")
    sel = sel.replace("~", " ")   # the source field of //@extract cannot contain blanks: `~` stands for one
    path = os.path.join(REPO, f)
    if not os.path.exists(path):
        raise Undecided("anchor lost: file %s missing" % f)
    src = open(path, encoding="utf-8").read()
    try:
        item, toks = rustlex.find_item(src, sel)
    except KeyError as e:
        raise Undecided(str(e))
    found = _find_closures(src, toks, item)
    k = int(k)
    if k < 1 or k > len(found):
        raise Undecided("anchor lost: %s has %d block closures, template wants #%d" % (sel, len(found), k))
    c0, b0, b1, ret = found[k - 1]
    return "\n" * src.count("\n", 0, c0) + "fn %s(__CLOSURE_PARAMS__)%s " % (name, ret) + src[b0:b1] + "\n"


def read_src(src):
    if src in _VIRTUAL:
        return _VIRTUAL[src]
    if src.startswith("closure|"):
        _VIRTUAL[src] = extract_closure(src)
        return _VIRTUAL[src]
    if src.startswith("expanded:"):
        raise Undecided("expanded source %s not produced in this run" % src)
    if src.startswith("expand:"):
        if src not in _VIRTUAL:
            _VIRTUAL[src] = expand_macro(src)
        return _VIRTUAL[src]
    path = resolve_src(src)
    if not os.path.exists(path):
        raise Undecided("anchor lost: file %s missing" % src)
    return open(path, encoding="utf-8").read()


def resolve_src(src):
    if src.startswith("registry:"):
        pat = os.path.join(REGISTRY, "*", src[len("registry:"):])
        hits = sorted(glob.glob(pat))
        if len(hits) != 1:
            raise Undecided("registry source %s: %d matches" % (src, len(hits)))
        return hits[0]
    return os.path.join(REPO, src)


def _filter_attrs(text, item, keep_all, derive=None):
    """Return the item text starting at head_start, preceded by surviving attributes."""
    out = []
    if derive is not None:
        if derive:
            out.append("#[derive(%s)]" % ", ".join(derive))
        return out + [a for a in item.attrs if re.match(r"#\[repr\(", a)]
    for a in item.attrs:
        if keep_all:
            out.append(a)
            continue
        m = re.match(r"#\[derive\((.*)\)\]$", a, re.S)
        if m:
            ds = [d.strip() for d in m.group(1).split(",") if d.strip()]
            ds = [d for d in ds if d.split("::")[-1] in DERIVE_KEEP]
            if "Copy" in ds and "Clone" not in ds:
                ds.append("Clone")
            if ds:
                out.append("#[derive(%s)]" % ", ".join(ds))
        elif re.match(r"#\[repr\(", a):
            out.append(a)
    return out


class Extraction:
    def __init__(self, src, selector, tmpl, lineno):
        self.src = src
        self.selector = selector
        self.tmpl = tmpl
        self.lineno = lineno
        self.ret = None
        self.rename = None
        self.keep_attrs = False
        self.keep_vis = False
        self.derive = None
        self.header_only = False
        self.sig_only_external = False
        self.optional = False
        self.no_canary = False
        self.inserts = []   # (where, arg, [Line])
        self.subs = []      # (count, regex, repl, lineno)


def _loc(src, off):
    return src.count("\n", 0, off) + 1


def render_extraction(ex, gsubs, canary=None):
    """Return (list[Line], info dict)."""
    src = read_src(ex.src)
    try:
        item, toks = rustlex.find_item(src, ex.selector)
    except KeyError as e:
        if ex.optional and "no " in str(e):
            return [], {"src": ex.src, "selector": ex.selector, "line": 0, "kind": "missing-optional", "name": ex.selector,
                        "sha256": "", "loops": 0, "assumed": False, "has_contract": False, "annotated_loops": []}
        raise Undecided(str(e))
    except rustlex.LexError as e:
        raise Undecided("lex error in %s: %s" % (ex.src, e))
    lo_off, hi_off = item.head_start, item.end
    text = src[lo_off:hi_off]
    base_line = _loc(src, lo_off)
    if item.kind in ("fn", "const", "static") and not ex.keep_vis:
        # visibility is irrelevant to verification and `pub` would forbid contracts that mention
        # private fields: blank `pub` / `pub(..)` in front of the fn keyword
        k = item.tok_lo
        while k < item.tok_hi and toks[k].start < item.head_start:
            k += 1
        if toks[k].text == "pub":
            e = k
            if toks[k + 1].text == "(":
                e = rustlex.match_close(toks, k + 1)
            a, b = toks[k].start - lo_off, toks[e].end - lo_off
            text = text[:a] + " " * (b - a) + text[b:]
    if item.kind in ("struct", "enum") and item.body_tok >= 0 and not ex.keep_attrs:
        # field / variant attributes (#[error(..)], #[default], #[clvm(..)], doc attrs) are dropped;
        # blanked with spaces so that line numbers are preserved
        k = item.body_tok + 1
        endk = rustlex.match_close(toks, item.body_tok)
        buf = list(text)
        while k < endk:
            if toks[k].text == "#" and toks[k + 1].text == "[":
                c = rustlex.match_close(toks, k + 1)
                for q in range(toks[k].start - lo_off, toks[c].end - lo_off):
                    if buf[q] != "\n":
                        buf[q] = " "
                k = c + 1
            else:
                k += 1
        text = "".join(buf)

    # insertion points as offsets into `text`
    ins = []  # (offset, order, [Line])
    order = 0

    def add(off, lines):
        nonlocal order
        ins.append((off, order, lines))
        order += 1

    body_open = item.body_open - lo_off if item.body_open >= 0 else -1
    body_close = hi_off - lo_off - 1 if item.body_open >= 0 else -1
    loops = []
    if item.body_tok >= 0:
        close_tok = rustlex.match_close(toks, item.body_tok)
        loops = rustlex.loops_in(toks, item.body_tok + 1, close_tok)

    def loop(k, what):
        if k < 1 or k > len(loops):
            raise Undecided("anchor lost: %s %s has %d loops, overlay wants #%d" % (ex.src, ex.selector, len(loops), k))
        kw, bo = loops[k - 1]
        if what == "open":
            return toks[bo].start - lo_off
        if what == "after_open":
            return toks[bo].end - lo_off
        if what == "after_close":
            return toks[rustlex.match_close(toks, bo)].end - lo_off
        if what == "before_close":
            return toks[rustlex.match_close(toks, bo)].start - lo_off

    sig_end = body_open
    body_canary = (canary == 0 and item.kind == "fn" and body_open >= 0 and not ex.no_canary
                   and not ex.header_only and not ex.sig_only_external)
    inserts = ex.inserts
    if body_canary:
        # vacuity canary: keep signature + contract, replace the body by `assert(false)`: the only question
        # asked is whether the preconditions / axioms in scope are contradictory
        inserts = [t for t in ex.inserts if t[0] == "contract"]
        text = text[:body_open + 1] + " assert(false); // CANARY %s\n vstd::pervasive::unreached() }" % ex.selector
        body_close = len(text) - 1
    for where, arg, lines in inserts:
        if where == "contract":
            if body_open < 0:
                # declaration ending in ';'
                add(len(text) - 1, lines)
            else:
                add(body_open, lines)
        elif where == "body_start":
            add(body_open + 1, lines)
        elif where == "body_end":
            add(body_close, lines)
        elif where == "loop":
            add(loop(int(arg), "open"), lines)
        elif where == "loop_body_start":
            add(loop(int(arg), "after_open"), lines)
        elif where == "after_loop":
            add(loop(int(arg), "after_close"), lines)
        elif where == "loop_body_end":
            add(loop(int(arg), "before_close"), lines)
        elif where == "arm_end":
            # end of the `{ .. }` block of the match arm whose pattern contains the nth occurrence of needle
            nth, needle = arg
            pos = -1
            start = 0
            for _ in range(nth):
                pos = text.find(needle, start)
                if pos < 0:
                    raise Undecided("anchor lost: arm %r (#%d) not found in %s %s" % (needle, nth, ex.src, ex.selector))
                start = pos + 1
            k = 0
            while k < len(toks) and toks[k].start - lo_off < pos:
                k += 1
            # next '=>' then '{'
            while k + 1 < len(toks) and not (toks[k].text == "=" and toks[k + 1].text == ">"):
                k += 1
            k += 2
            if k >= len(toks) or toks[k].text != "{":
                raise Undecided("anchor lost: arm %r has no block body in %s %s" % (needle, ex.src, ex.selector))
            add(toks[rustlex.match_close(toks, k)].start - lo_off, lines)
        elif where in ("before", "after"):
            nth, needle = arg
            pos = -1
            start = 0
            for _ in range(nth):
                pos = text.find(needle, start)
                if pos < 0:
                    raise Undecided("anchor lost: needle %r (#%d) not found in %s %s" % (needle, nth, ex.src, ex.selector))
                start = pos + 1
            add(pos if where == "before" else pos + len(needle), lines)
        else:
            raise Undecided("template error: unknown insert " + where)

    if canary is not None and item.kind == "fn" and body_open >= 0 and not ex.no_canary:
        cl = [Line("assert(false); // CANARY %s" % ex.selector, ("canary", ex.selector, 0))]
        if canary == 0:
            pass
        elif canary <= len(loops) and any(w in ("loop",) and int(a) == canary for w, a, _ in ex.inserts):
            add(loop(canary, "after_open"), cl)

    # -> T  =>  -> (r: T)
    ret_edit = None
    if ex.ret and item.kind == "fn":
        # find '->' at depth 0 in the signature tokens
        i = item.tok_lo
        end_tok = item.body_tok if item.body_tok >= 0 else item.tok_hi - 1
        # locate fn params close
        j = None
        k = i
        while k < end_tok:
            if toks[k].text == "fn":
                k += 2
                if toks[k].text == "<":
                    k = rustlex.skip_generics(toks, k)
                assert toks[k].text == "(", toks[k]
                j = rustlex.match_close(toks, k)
                break
            k += 1
        if j is None:
            raise Undecided("cannot parse signature of %s" % ex.selector)
        if toks[j + 1].text == "-" and toks[j + 2].text == ">":
            ty_start = toks[j + 3].start - lo_off
            # type ends at body '{', or 'where', or ';'
            k = j + 3
            while k < end_tok and toks[k].text != "where":
                if toks[k].text in rustlex.OPEN and k != end_tok:
                    k = rustlex.match_close(toks, k)
                k += 1
            ty_end = toks[k - 1].end - lo_off
            ret_edit = (ty_start, ty_end)
        else:
            ret_edit = None

    # build pieces
    events = sorted(ins, key=lambda t: (t[0], t[1]))
    out = []

    def emit_src(a, b):
        if a >= b:
            return
        seg = text[a:b]
        line = base_line + text.count("\n", 0, a)
        parts = seg.split("\n")
        for idx, p in enumerate(parts):
            out.append(["src", p, line + idx, idx < len(parts) - 1])

    cuts = []
    for off, _, lines in events:
        cuts.append((off, lines))
    pos = 0
    # apply ret edit by splitting source emission
    def emit_range(a, b):
        if ret_edit and a <= ret_edit[0] and ret_edit[1] <= b:
            emit_src(a, ret_edit[0])
            out.append(["raw", "(%s: " % ex.ret, None, False])
            emit_src(ret_edit[0], ret_edit[1])
            out.append(["raw", ")", None, False])
            emit_src(ret_edit[1], b)
        else:
            emit_src(a, b)

    if ret_edit:
        for off, _ in cuts:
            if ret_edit[0] < off < ret_edit[1]:
                raise Undecided("insertion inside return type")
    for off, lines in cuts:
        emit_range(pos, off)
        out.append(["raw", "", None, True])
        for ln in lines:
            out.append(["ovl", ln.text, ln.origin, True])
        pos = off
    emit_range(pos, len(text))

    # join into lines
    result = []
    cur, cur_origin = "", None
    for kind, s, meta, nl in out:
        if cur_origin is None and s.strip() != "":
            if kind == "src":
                cur_origin = ("repo", ex.src, meta)
            elif kind == "ovl":
                cur_origin = meta
        cur += s
        if nl:
            result.append(Line(cur, cur_origin or ("tmpl", ex.tmpl, ex.lineno)))
            cur, cur_origin = "", None
    if cur != "":
        result.append(Line(cur, cur_origin or ("tmpl", ex.tmpl, ex.lineno)))

    attrs = _filter_attrs(text, item, ex.keep_attrs, ex.derive)
    head = [Line(a, ("repo", ex.src, base_line)) for a in attrs]
    result = head + result

    joined = "\n".join(l.text for l in result)
    nlines = len(result)
    # built-in: hex_literal::hex!("..") -> byte array literal (the macro is not available to a single file)
    def _hexlit(m):
        h = m.group(1)
        arr = "[" + ", ".join("0x%s_u8" % h[i:i + 2] for i in range(0, len(h), 2)) + "]"
        return arr + "\n" * m.group(0).count("\n")
    joined = re.sub(r'\bhex!\(\s*"([0-9a-fA-F]*)"\s*\)', _hexlit, joined)
    joined = _rewrite_assert_eq(joined)
    for count, rx, repl, lno in list(gsubs) + ex.subs:
        if body_canary:
            count = None
        mcl = re.search(r"@CLOSURE(\d+)@", rx)
        if mcl:
            # stands for the verbatim text of the k-th block closure of this function
            cls = _find_closures(src, toks, item) if item.kind == "fn" else []
            kk = int(mcl.group(1))
            if kk < 1 or kk > len(cls):
                if body_canary:
                    continue
                raise Undecided("anchor lost: %s %s has %d block closures, rewrite wants #%d" % (ex.src, ex.selector, len(cls), kk))
            rx = rx.replace(mcl.group(0), re.escape(src[cls[kk - 1][0]:cls[kk - 1][2]]))
        def _keep_lines(m, repl=repl):
            out = m.expand(repl)
            missing = m.group(0).count("\n") - out.count("\n")
            return out + ("\n" * missing if missing > 0 else "")
        new, n = re.subn(rx, _keep_lines, joined)
        if count is not None and n != count:
            raise Undecided("rewrite count mismatch in %s %s: /%s/ matched %d, expected %d (template %s:%d)"
                            % (ex.src, ex.selector, rx, n, count, ex.tmpl, lno))
        if new.count("\n") != joined.count("\n"):
            raise Undecided("template error: rewrite /%s/ changes line count" % rx)
        joined = new
    if ex.rename:
        joined, n = re.subn(r"\bfn\s+%s\b" % re.escape(item.name), "fn " + ex.rename, joined, count=1)
        if n != 1:
            raise Undecided("rename failed for " + ex.selector)
    if ex.header_only or ex.sig_only_external:
        # cut at body '{' — recompute on the joined text by lexing it
        jt = rustlex.lex(joined)
        its = rustlex.parse_items(joined, jt)
        it = its[-1]
        if it.body_open < 0:
            raise Undecided("header_only on bodiless item " + ex.selector)
        headtxt = joined[:it.body_open].rstrip()
        if ex.header_only:
            joined2 = headtxt + ";"
        else:
            joined2 = "#[verifier::external_body]\n" + headtxt + "\n{ unimplemented!() }"
            result = [Line("", ("tmpl", ex.tmpl, ex.lineno))] + result
        k = joined2.count("\n") + 1
        result = result[:k] if k <= len(result) else result + [Line("", ("tmpl", ex.tmpl, ex.lineno))] * (k - len(result))
        joined = joined2
    new_lines = joined.split("\n")
    assert len(new_lines) == len(result), (len(new_lines), len(result))
    for l, t in zip(result, new_lines):
        l.text = t
    info = {
        "src": ex.src, "selector": ex.selector, "line": base_line,
        "kind": item.kind, "name": _qual_name(ex.selector, ex.rename or item.name),
        "sha256": hashlib.sha256(text.encode()).hexdigest()[:16],
        "loops": len(loops), "assumed": ex.sig_only_external or ex.header_only,
        "has_contract": any(w == "contract" for w, _, _ in ex.inserts),
        "annotated_loops": sorted({int(a) for w, a, _ in ex.inserts if w == "loop"}),
    }
    return result, info


def _expand_foreach(lines, rel):
    out = []
    i = 0
    while i < len(lines):
        s = lines[i].strip()
        if s.startswith("//@foreach "):
            head, vals = s[len("//@foreach "):].split(" in ", 1)
            names = head.split()
            block = []
            i += 1
            depth = 1
            while i < len(lines):
                s2 = lines[i].strip()
                if s2.startswith("//@foreach "):
                    depth += 1
                if s2.startswith("//@endforeach"):
                    depth -= 1
                    if depth == 0:
                        break
                block.append(lines[i])
                i += 1
            if depth != 0:
                raise Undecided("template error %s: unterminated foreach" % rel)
            for v in vals.split():
                parts = v.split(":")
                if len(parts) != len(names):
                    raise Undecided("template error %s: foreach arity" % rel)
                sub = block
                for n, pv in zip(names, parts):
                    sub = [l.replace("{%s}" % n, pv) for l in sub]
                out.extend(_expand_foreach(sub, rel))
            i += 1
            continue
        out.append(lines[i])
        i += 1
    return out


def _rewrite_assert_eq(text):
    """assert_eq!(a, b) / debug_assert_eq!(a, b)  ->  assert!(a == b) / debug_assert!(a == b)
    (core::panicking::assert_failed has no Verus spec; the panic condition is the same).  Token based."""
    if "assert_eq!" not in text:
        return text
    toks = rustlex.lex(text)
    edits = []
    for i, t in enumerate(toks):
        if t.kind == "ident" and t.text in ("assert_eq", "debug_assert_eq") and i + 2 < len(toks) \
                and toks[i + 1].text == "!" and toks[i + 2].text == "(":
            close = rustlex.match_close(toks, i + 2)
            depth = 0
            comma = None
            for k in range(i + 3, close):
                if toks[k].text in rustlex.OPEN:
                    depth += 1
                elif toks[k].text in rustlex.CLOSE:
                    depth -= 1
                elif toks[k].text == "," and depth == 0:
                    comma = k
                    break
            if comma is None:
                continue
            # only the two-argument form (no format message) is rewritten
            depth = 0
            extra = False
            for k in range(comma + 1, close):
                if toks[k].text in rustlex.OPEN:
                    depth += 1
                elif toks[k].text in rustlex.CLOSE:
                    depth -= 1
                elif toks[k].text == "," and depth == 0 and k != close - 1:
                    extra = True
            if extra:
                continue
            edits.append((t.start, t.end, t.text[:-3]))
            edits.append((toks[comma].start, toks[comma].end, " =="))
    for a, b, r in sorted(edits, reverse=True):
        text = text[:a] + r + text[b:]
    return text


def _qual_name(selector, name):
    m = re.search(r"(?:impl|trait):(.*)::fn:[^:]+$", selector)
    if not m:
        return name
    hdr = m.group(1)
    if " for " in hdr:
        hdr = hdr.split(" for ", 1)[1]
    hdr = hdr.split("#")[0]
    return "%s::%s" % (hdr.strip(), name)


def parse_template(path, seen=None):
    """Yield ('line', Line) | ('extract', Extraction) | ('gsub', (rx, repl, lineno))."""
    rel = os.path.relpath(path, VERIF)
    seen = seen or set()
    if path in seen:
        raise Undecided("template include cycle: " + rel)
    seen = seen | {path}
    lines = open(path, encoding="utf-8").read().split("\n")
    lines = _expand_foreach(lines, rel)
    i = 0
    while i < len(lines):
        ln = lines[i]
        s = ln.strip()
        if s.startswith("//@include "):
            inc = os.path.join(VERIF, s[len("//@include "):].strip())
            yield from parse_template(inc, seen)
            i += 1
            continue
        if s.startswith("//@gsub "):
            rx, repl = s[len("//@gsub "):].split(" =>>", 1)
            repl = repl[1:] if repl.startswith(" ") else repl
            yield ("gsub", (None, rx.strip(), repl.rstrip("\n"), i + 1))
            i += 1
            continue
        if s.startswith("//@extract "):
            parts = s[len("//@extract "):].split(None, 1)
            ex = Extraction(parts[0], parts[1].strip(), rel, i + 1)
            i += 1
            cur = None
            while i < len(lines):
                s2 = lines[i].strip()
                if s2.startswith("//@end"):
                    break
                if s2.startswith("//@"):
                    d = s2[3:].split(None, 1)
                    name = d[0]
                    arg = d[1] if len(d) > 1 else ""
                    cur = None
                    if name == "ret":
                        ex.ret = arg.strip()
                    elif name == "rename":
                        ex.rename = arg.strip()
                    elif name == "derive":
                        ex.derive = [d.strip() for d in arg.split(",") if d.strip()]
                    elif name == "keep_vis":
                        ex.keep_vis = True
                    elif name == "keep_attrs":
                        ex.keep_attrs = True
                    elif name == "header_only":
                        ex.header_only = True
                    elif name == "sig_only_external":
                        ex.sig_only_external = True
                    elif name == "optional":
                        # an item (a constant, typically) that the code may stop defining: if it is gone nothing is emitted,
                        # and whatever still refers to it fails to resolve (undecided) - the rest is verified without it
                        ex.optional = True
                    elif name == "no_canary":
                        ex.no_canary = True
                    elif name == "sub":
                        cnt, rest = arg.split(None, 1)
                        rx, repl = rest.split(" =>>", 1)
                        repl = repl[1:] if repl.startswith(" ") else repl
                        ex.subs.append((None if cnt == "*" else int(cnt), rx.strip(), repl, i + 1))
                    elif name in ("contract", "body_start", "body_end", "prefix"):
                        cur = []
                        ex.inserts.append((name, None, cur))
                    elif name in ("loop", "loop_body_start", "after_loop", "loop_body_end"):
                        cur = []
                        ex.inserts.append((name, arg.strip(), cur))
                    elif name in ("before", "after", "arm_end"):
                        nth, needle = arg.split(None, 1)
                        cur = []
                        ex.inserts.append((name, (int(nth), needle), cur))
                    else:
                        raise Undecided("template error %s:%d unknown directive %s" % (rel, i + 1, name))
                else:
                    if cur is None:
                        if s2 != "":
                            raise Undecided("template error %s:%d stray text in extract block" % (rel, i + 1))
                    else:
                        cur.append(Line(lines[i], ("tmpl", rel, i + 1)))
                i += 1
            yield ("extract", ex)
            i += 1
            continue
        yield ("line", Line(ln, ("tmpl", rel, i + 1)))
        i += 1


def assemble(template_path, canary=None, extra_items=()):
    """Return (list[Line], list[info]).  extra_items: (src, selector) pairs of items the real code started to
    reference (new helper const/fn): extracted verbatim, without contract, and placed before the closing
    `} // verus!` of the template."""
    out = []
    infos = []
    gsubs = []
    events = list(parse_template(template_path))
    if extra_items:
        idx = max(i for i, (k, v) in enumerate(events) if k == "line" and v.text.strip().startswith("} // verus!"))
        extra = [("extract", Extraction(src, sel, "<auto-resolved>", 0)) for src, sel in extra_items]
        events = events[:idx] + extra + events[idx:]
    for kind, val in events:
        if kind == "line":
            out.append(val)
        elif kind == "gsub":
            gsubs.append(val)
        else:
            ex = val
            prefix = [ls for w, _, ls in ex.inserts if w == "prefix"]
            ex_inserts = [t for t in ex.inserts if t[0] != "prefix"]
            saved = ex.inserts
            ex.inserts = ex_inserts
            lines, info = render_extraction(ex, gsubs, canary)
            ex.inserts = saved
            for ls in prefix:
                out.extend(ls)
            info["out_lo"] = len(out) + 1
            out.extend(lines)
            info["out_hi"] = len(out)
            infos.append(info)
    return out, infos
