"""Write /verif/MANIFEST.json from the registry (./check manifest)."""
import json
import os

from . import props, assemble

VERIF = assemble.VERIF


def write():
    checks = []
    for pid in sorted(props.PROPS):
        p = props.PROPS[pid]
        checks.append({
            "property_id": pid,
            "quick_cmd": "./check %s --tier quick" % pid,
            "thorough_cmd": "./check %s --tier thorough" % pid,
            "evidence_file": "/verif/evidence/%s.json" % pid,
            "replay_cmd_template": "./check replay {path}",
            "engine": "contract-verifier",
            "level_claimed": {"category": "proof", "text": p["level_text"], "design_ref": p.get("design_ref", "DESIGN.md §5 " + pid)},
            "level_note": p["level_note"],
            "technique": p["technique"],
        })
    na = [{"property_id": k, "reason": v} for k, v in sorted(props.NOT_APPLICABLE.items())]
    m = {
        "version": 1,
        "setup_cmd": "./setup.sh",
        "hooks": {
            "guard": "chia_network_chia_rs_verif",
            "enable": "no hooks in /repo: contracts are applied to source text extracted from /repo on every run; Kani harnesses and the replay side-car link the real crates by path",
            "baseline_off_cmd": "cd /repo && cargo test --workspace --no-fail-fast --offline",
            "source_commits": [],
            "add_only": True,
        },
        "engines": [{
            "name": "contract-verifier", "path": "/verif/check",
            "serves_properties": sorted(props.PROPS),
            "kind_free_text": "contract-based deductive verification: real functions extracted mechanically from /repo each run, contracts spliced from /verif/contracts, discharged by Verus (Z3); Kani/CBMC harnesses on the compiled real crates for fixed-width complete proofs and labelled bounded stand-ins; native-eval for closed ground obligations; native replay side-car for counterexamples",
        }],
        "checks": checks,
        "not_applicable": na,
        "notes": "Exit 0 held / 1 violation / 2 undecided (anchor lost, unsupported construct, rlimit: never an alarm). known-findings.txt lists recorded defects. See DESIGN.md.",
    }
    json.dump(m, open(os.path.join(VERIF, "MANIFEST.json"), "w"), indent=1)
    return m
