"""./check entry point.

  ./check <Cxx> [--tier quick|thorough]     decide one property
  ./check all [--tier ..]                   every claimed property
  ./check replay <file>                     re-execute a stored counterexample against the real code
  ./check baseline                          rewrite baseline/<unit>.json from the current tree (manual, pinned tree only)
  ./check gen <unit>                        just assemble a unit and print the path (debugging)

Exit codes: 0 held / 1 violation (VIOLATION line printed) / 2 undecided (never an alarm).
"""
import concurrent.futures as cf
import json
import os
import sys
import time

from . import assemble, unit as unitmod, props, sidecar, kani

VERIF = assemble.VERIF
EVID = os.environ.get("VERIF_EVIDENCE_DIR") or os.path.join(VERIF, "evidence")
REPLAY_DIR = os.path.join(EVID, "replay")
KNOWN = os.path.join(VERIF, "known-findings.txt")
BASE = os.path.join(VERIF, "baseline")


def load_known():
    """lines:  known: property=<id> obligation=<oid> <text>   |  fixed: property=<id> <commit> <text>"""
    known = []
    if os.path.exists(KNOWN):
        for ln in open(KNOWN):
            ln = ln.strip()
            if ln.startswith("known:"):
                kv = dict(p.split("=", 1) for p in ln.split()[1:3])
                known.append((kv.get("property"), kv.get("obligation"), ln))
    return known


def run_component(c, tier):
    kind = c["kind"]
    if kind == "verus":
        r = unitmod.run_unit(c["unit"], c["template"], rlimit=c.get("rlimit", 30), generator=c.get("generator"),
                             known_clauses=c.get("known_clauses", ()))
        j = r.to_json()
        j["trusted"] = r.trusted
        j["kind"] = "verus"
        # baseline: every function verified on the pinned tree must still be there and verified
        bpath = os.path.join(BASE, c["unit"] + ".json")
        if r.status == "ok" and os.path.exists(bpath):
            base = json.load(open(bpath))
            # Verus numbers impl blocks (impl&%N) in file order: normalise, the number is not part of the identity
            import re as _re
            norm = lambda n: _re.sub(r"impl&%\d+", "impl", n)
            ok_now = {norm(k) for k, v in r.verus_functions.items() if v.get("success")}
            missing = sorted({norm(f) for f in base["verified_functions"]} - ok_now)
            if missing:
                j["status"] = "undecided"
                j["reason"] = "functions in baseline no longer verified/present: " + ", ".join(missing[:6])
            if r.obligations < base.get("obligations", 0):
                j["status"] = "undecided"
                j["reason"] = "obligation count %d below baseline %d" % (r.obligations, base["obligations"])
        j["_verus_functions"] = r.verus_functions
        # obligations that belong to another property's statement are reported there, not here
        if c.get("exclude_clause"):
            import re as _re
            keep, out = [], []
            for f in j["failures"]:
                (out if _re.search(c["exclude_clause"], f.get("clause", "")) else keep).append(f)
            j["failures"] = keep
            j["out_of_scope_failures"] = [f["id"] for f in out]
            if not keep and j["status"] == "violation":
                j["status"] = "ok"
                j["discharged"] = j["obligations"] - 0
                j["obligations"] = j["obligations"]
        return j
    if kind == "kani":
        return kani.run_harnesses(c)
    if kind == "native":
        j = sidecar.native_eval(c, tier)
        # ground obligations that state another property's clause are reported there, not here
        if c.get("exclude_id"):
            import re as _re
            keep, out = [], []
            for f in j.get("failures", []):
                (out if _re.search(c["exclude_id"], f.get("id", "")) else keep).append(f)
            j["failures"] = keep
            j["out_of_scope_failures"] = [f["id"] for f in out]
            j["obligations"] = max(0, j.get("obligations", 0) - len(out))
            if not keep and j.get("status") == "violation":
                j["status"] = "ok"
                j["discharged"] = j["obligations"]
        return j
    raise ValueError(kind)


def decide(pid, tier, seed):
    t0 = time.time()
    p = props.PROPS[pid]
    comps = [c for c in p["components"]
             if (tier == "thorough" and c.get("tier", "quick") != "quick-only")
             or (tier != "thorough" and c.get("tier", "quick") in ("quick", "quick-only"))]
    results = []
    with cf.ThreadPoolExecutor(max_workers=max(1, min(8, len(comps)))) as ex:
        futs = [ex.submit(run_component, c, tier) for c in comps]
        for c, f in zip(comps, futs):
            try:
                results.append(f.result())
            except Exception as e:  # tool crash: undecided, never an alarm
                results.append({"name": c.get("unit") or c.get("name"), "kind": c["kind"], "backend": c["kind"],
                                "status": "undecided", "reason": "tool crash: %r" % (e,), "obligations": 0,
                                "discharged": 0, "failures": [], "trusted": [], "wall_s": 0})
    # bounded stand-in: a unit the verifier could not decide (construct outside its subset, lost anchor) is handed to
    # the unit's native searcher; a disagreement with the spec twin that replays on the real code is a violation
    # (labelled bounded), no hit leaves the unit undecided
    for r in results:
        if r.get("status") == "undecided" and r.get("kind") == "verus" and r["name"].split("_canary")[0] in sidecar.SEARCHERS:
            try:
                cex = sidecar.search(pid, sidecar.SEARCHERS[r["name"]], {"function": ""}, seed, 60 if tier == "thorough" else 10)
            except Exception as e:
                cex = None
            r.setdefault("bounded", []).append("%s: undecided by Verus (%s); native random/boundary search with the spec twin as bounded stand-in, budget %ds" % (r["name"], r.get("reason", "")[:120], 60 if tier == "thorough" else 10))
            if cex is not None:
                r["status"] = "violation"
                r.setdefault("failures", []).append({"id": "%s/bounded-search" % r["name"], "kind": "bounded-search", "function": "",
                    "message": "unit undecided by the verifier; bounded native search found an input on which the real code disagrees with the spec twin",
                    "clause": "spec twin disagreement", "cex": cex, "rendered": r.get("reason", "")})
    known = load_known()
    violations = []
    known_hits = []
    undecided = []
    for r in results:
        if r["status"] == "undecided":
            undecided.append("%s: %s" % (r["name"], r["reason"]))
        for f in r.get("failures", []):
            k = [kn for kn in known if kn[0] == pid and kn[1] == f["id"]]
            if k:
                known_hits.append((f, k[0][2]))
            else:
                violations.append((r, f))
    # counterexample search for every unlisted failing obligation
    out_lines = []
    os.makedirs(REPLAY_DIR, exist_ok=True)
    for r, f in violations:
        cex = None
        if f.get("cex") is not None:
            cex = f["cex"]
        else:
            try:
                cex = sidecar.search(pid, sidecar.SEARCHERS.get(r["name"], r["name"]), f, seed, 60 if tier == "thorough" else 8)
            except Exception as e:
                cex = None
                f["search_error"] = repr(e)
        rp = os.path.join(REPLAY_DIR, "%s-%s.json" % (pid, f["id"].replace("/", "_").replace("@", "-")))
        json.dump({"property": pid, "obligation": f["id"], "function": f.get("function"),
                   "backend": r.get("backend"), "verifier_message": f.get("message"),
                   "clause": f.get("clause"), "clause_origin": f.get("clause_origin"),
                   "at": f.get("at"), "at_origin": f.get("at_origin"),
                   "verifier_output": f.get("rendered"),
                   "counterexample": cex, "replayable": cex is not None}, open(rp, "w"), indent=1)
        line = "VIOLATION property=%s replay=%s obligation=%s" % (pid, rp, f["id"])
        if cex is None:
            line += " no-failing-input-found"
        out_lines.append(line)
    for f, kn in known_hits:
        out_lines.append("KNOWN-FINDING: property=%s %s" % (pid, kn.split(None, 3)[3] if len(kn.split(None, 3)) > 3 else f["id"]))

    # obligations listed as known findings are reported separately (coverage.known_finding_obligations);
    # `obligations` counts the ones this run was expected to discharge
    obligations = sum(r.get("obligations", 0) for r in results) - len(known_hits)
    discharged = sum(r.get("discharged", 0) for r in results)
    trusted = sorted({t for r in results for t in r.get("trusted", [])})
    samples = []
    for r in results:
        for fn, st in list(r.get("_verus_functions", {}).items())[:4]:
            samples.append({"obligation": "%s :: %s (all VCs of this function)" % (r["name"], fn),
                            "backend": r.get("backend"), "smt_ms": st.get("time_ms"), "success": st.get("success")})
        for s in r.get("samples", [])[:4]:
            samples.append(s)
    ev = {
        "property_id": pid, "tier": tier, "seed": seed, "level": p.get("level", "proof"),
        "coverage": {
            "obligations": obligations, "discharged": discharged,
            "checker_cmd": " ; ".join(sorted({r.get("cmd", "") for r in results if r.get("cmd")})) or "n/a",
            "trusted_base": trusted,
            "samples": samples[:12] or [{"note": "no obligations generated"}],
            "components": [{k: v for k, v in r.items() if not k.startswith("_") and k not in ("trusted",)} for r in results],
            "backends": sorted({r.get("backend", "?") for r in results}),
            "solver_seconds": round(sum(r.get("smt_s", 0) or 0 for r in results), 3),
            "canaries_expected": sum(r.get("canaries", 0) for r in results),
            "canaries_failed_as_required": sum(r.get("canaries_failed", 0) for r in results),
            "bounded": [b for r in results for b in r.get("bounded", [])],
            "not_covered": p.get("not_covered", []),
            "undecided": undecided,
            "known_findings_hit": [kn for _, kn in known_hits],
            "known_finding_obligations": len(known_hits),
            "extraction_drops": props.EXTRACTION_DROPS,
        },
        "assumptions": p.get("assumptions", []) + ["see coverage.trusted_base for every assume/external_body/assume_specification in the generated files"],
        "wall_s": round(time.time() - t0, 2),
        "violations": len(violations),
    }
    os.makedirs(EVID, exist_ok=True)
    json.dump(ev, open(os.path.join(EVID, pid + ".json"), "w"), indent=1)
    for l in out_lines:
        print(l)
    if violations:
        code = 1
    elif undecided:
        code = 2
        for u in undecided:
            print("UNDECIDED property=%s %s" % (pid, u))
    else:
        code = 0
    print("%s: %s  obligations=%d discharged=%d components=%d wall=%.1fs" % (
        pid, {0: "HELD", 1: "VIOLATED", 2: "UNDECIDED"}[code], obligations, discharged, len(results), time.time() - t0))
    return code


def main(argv):
    if len(argv) < 2:
        print(__doc__)
        return 2
    tier = os.environ.get("VERIF_TIER", "quick")
    if "--tier" in argv:
        tier = argv[argv.index("--tier") + 1]
    seed = int(os.environ.get("VERIF_SEED", "1"))
    cmd = argv[1]
    if cmd == "manifest":
        from . import manifest
        m = manifest.write()
        print("MANIFEST.json written: %d checks, %d not_applicable" % (len(m["checks"]), len(m["not_applicable"])))
        return 0
    if cmd == "replay":
        return sidecar.replay(argv[2])
    if cmd == "gen":
        u = props.UNITS[argv[2]]
        canary = int(argv[3]) if len(argv) > 3 else None
        if u.get("generator"):
            from . import gen_derived
            tpath, _ = gen_derived.make(**u["generator"])
        else:
            tpath = os.path.join(VERIF, u["template"])
        lines, infos = assemble.assemble(tpath, canary=canary)
        os.makedirs(unitmod.GEN, exist_ok=True)
        path = os.path.join(unitmod.GEN, argv[2] + "_dbg.rs")
        open(path, "w").write("\n".join(l.text for l in lines) + "\n")
        print(path)
        return 0
    if cmd == "baseline":
        os.makedirs(BASE, exist_ok=True)
        names = argv[2:] or sorted(props.UNITS)
        for name in names:
            u = props.UNITS[name]
            r = unitmod.run_unit(name, u.get("template"), rlimit=u.get("rlimit", 30), canaries=False, generator=u.get("generator"))
            if r.status != "ok":
                print("unit %s not ok (%s: %s) - baseline not written" % (name, r.status, r.reason))
                for f in r.failures:
                    print("   ", f["id"], f["message"], f["at_origin"], f["clause"][:100])
                continue
            json.dump({"unit": name, "obligations": r.obligations,
                       "verified_functions": sorted(k for k, v in r.verus_functions.items() if v.get("success"))},
                      open(os.path.join(BASE, name + ".json"), "w"), indent=1)
            print("baseline", name, r.obligations)
        return 0
    if cmd == "all":
        worst = 0
        for pid in sorted(props.PROPS):
            worst = max(worst, decide(pid, tier, seed)) if False else max(worst, decide(pid, tier, seed))
        return worst
    if cmd in props.PROPS:
        return decide(cmd, tier, seed)
    print("unknown command/property", cmd)
    return 2


if __name__ == "__main__":
    sys.exit(main(sys.argv))
