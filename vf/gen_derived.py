"""Generate the contract unit for derive(Streamable) impls from rustc's own macro expansion.

On every run:  cargo rustc -p <crate> -- -Zunpretty=expanded   (offline, RUSTC_BOOTSTRAP=1, own target dir)
gives the text the compiler actually compiles for each `impl chia_traits::Streamable for X`.  For every
derived impl on a struct, the generator emits (a) the struct declaration extracted from the expanded
text, (b) an `enc_onto`/`wf` spec *generated from the struct declaration* (fields in declared order,
independent of the three method bodies) and (c) the three method bodies extracted verbatim, which
must then each conform to the trait contract of contracts/streamable_core.vrs.
Field types that are not themselves under contract (BLS elements, Program, String, enums, arrays,
hand-written codecs) are declared as opaque types with an ASSUMED Streamable impl and show up in
the trusted base.
"""
import hashlib
import os
import re
import subprocess

from . import assemble, rustlex

VERIF = assemble.VERIF
_CACHE = os.environ.get("VERIF_CACHE") or os.path.join(VERIF, ".cache")
EXPAND_DIR = os.path.join(_CACHE, "expand")
EXPAND_TARGET = os.path.join(_CACHE, "expand-target")

PRIMS = {"u8", "i8", "u16", "i16", "u32", "i32", "u64", "i64", "u128", "i128", "bool"}


_EXPAND_LOCK = __import__("threading").Lock()
_EXPANDED = {}


def expand_crate(crate):
    """one expansion per process (units of one check run share it)"""
    with _EXPAND_LOCK:
        if crate not in _EXPANDED:
            _EXPANDED[crate] = _expand_crate(crate)
        return _EXPANDED[crate]


def _expand_crate(crate):
    os.makedirs(EXPAND_DIR, exist_ok=True)
    out = os.path.join(EXPAND_DIR, crate + ".rs")
    env = dict(os.environ)
    env.update({"RUSTC_BOOTSTRAP": "1", "CARGO_TARGET_DIR": EXPAND_TARGET, "CARGO_NET_OFFLINE": "true"})
    p = subprocess.run(["cargo", "rustc", "-p", crate, "--offline", "--lib", "--", "-Zunpretty=expanded"],
                       cwd=assemble.REPO, env=env, capture_output=True, text=True, timeout=1800)
    if p.returncode != 0:
        raise assemble.Undecided("macro expansion of %s failed: %s" % (crate, p.stderr[-600:]))
    open(out, "w").write(p.stdout)
    return out


class TypeExpr:
    def __init__(self, name, args=None, tuple_=None, array=None):
        self.name = name
        self.args = args or []
        self.tuple = tuple_
        self.array = array

    def __repr__(self):
        if self.tuple is not None:
            return "(" + ", ".join(map(repr, self.tuple)) + ")"
        if self.array:
            return "[%r; %s]" % (self.array[0], self.array[1])
        return self.name + ("<" + ", ".join(map(repr, self.args)) + ">" if self.args else "")


def parse_type(toks, i):
    t = toks[i]
    if t.text == "(":
        j = rustlex.match_close(toks, i)
        elems = []
        k = i + 1
        while k < j:
            te, k = parse_type(toks, k)
            elems.append(te)
            if k < j and toks[k].text == ",":
                k += 1
        return TypeExpr("", tuple_=elems), j + 1
    if t.text == "[":
        j = rustlex.match_close(toks, i)
        te, k = parse_type(toks, i + 1)
        n = "".join(x.text for x in toks[k + 1:j])
        return TypeExpr("", array=(te, n)), j + 1
    if t.text == "&":
        return parse_type(toks, i + 1)
    # path
    name = None
    k = i
    if toks[k].text == ":":
        k += 2
    while True:
        name = toks[k].text
        k += 1
        if k + 1 < len(toks) and toks[k].text == ":" and toks[k + 1].text == ":":
            k += 2
            if toks[k].text == "<":
                break
            continue
        break
    args = []
    if k < len(toks) and toks[k].text == "<":
        end = rustlex.skip_generics(toks, k)
        q = k + 1
        while q < end - 1:
            if toks[q].kind == "lit" or (toks[q].kind == "ident" and toks[q].text.isupper() and len(toks[q].text) == 1):
                args.append(TypeExpr(toks[q].text))
                q += 1
            else:
                te, q = parse_type(toks, q)
                args.append(te)
            if q < end - 1 and toks[q].text == ",":
                q += 1
        k = end
    return TypeExpr(name, args), k


def collect(src):
    toks = rustlex.lex(src)
    structs, impls, aliases, enums = {}, {}, {}, set()

    def walk(lo, hi, path):
        for it in rustlex.parse_items(src, toks, lo, hi):
            if it.kind == "mod" and it.body_tok >= 0:
                walk(it.body_tok + 1, rustlex.match_close(toks, it.body_tok), path + ["mod:" + it.name])
            elif it.kind == "struct":
                fields = []
                generic = toks[it.tok_lo:it.tok_hi]
                has_generics = any(t.text == "<" for t in toks[it.tok_lo:(it.body_tok if it.body_tok >= 0 else it.tok_hi)][:6]) and \
                    toks[[k for k in range(it.tok_lo, it.tok_hi) if toks[k].text == "struct"][0] + 2].text == "<"
                if it.body_tok >= 0:
                    k = it.body_tok + 1
                    end = rustlex.match_close(toks, it.body_tok)
                    while k < end:
                        while toks[k].text == "#":
                            k = rustlex.match_close(toks, k + 1) + 1
                        if toks[k].text == "pub":
                            k += 1
                            if toks[k].text == "(":
                                k = rustlex.match_close(toks, k) + 1
                        fname = toks[k].text
                        assert toks[k + 1].text == ":", (it.name, fname, toks[k + 1])
                        te, k2 = parse_type(toks, k + 2)
                        fields.append((fname, te))
                        k = k2
                        if k < end and toks[k].text == ",":
                            k += 1
                    structs[it.name] = {"path": path, "fields": fields, "generic": has_generics, "tuple": False}
                else:
                    structs[it.name] = {"path": path, "fields": None, "generic": has_generics, "tuple": True}
            elif it.kind == "enum":
                enums.add(it.name)
            elif it.kind == "type":
                # type X = T;
                k = it.tok_lo
                while toks[k].text != "=":
                    k += 1
                try:
                    te, _ = parse_type(toks, k + 1)
                    aliases[it.name] = te
                except Exception:
                    pass
            elif it.kind == "impl":
                m = re.match(r"^(chia_traits::)?Streamable for (\w+)$", it.name)
                if m and m.group(1):
                    impls[m.group(2)] = {"path": path, "header": it.name}
    walk(0, len(toks), [])
    return structs, impls, aliases, enums


def make(crates=("chia-protocol",), limit=None, hw=True, part=None, parts=1, out_name="streamable_derived", complete=False):
    """part: None = everything in one file; 0..parts-1 = that slice of the derived impls (round-robin over the
    sorted names); "hw" = only the hand-written codecs.  Types whose impl lives in another slice are declared
    opaque with the (there proved) trait contract assumed."""
    """Return (template_path, stats).  The template is written under .cache/gen."""
    lines = []
    stats = {"derived_impls": 0, "covered": 0, "opaque": [], "skipped": []}
    L = lines.append
    L("// GENERATED by vf/gen_derived.py from rustc -Zunpretty=expanded; do not edit")
    L("use vstd::prelude::*;")
    L("verus! {")
    # complete=True: the trait contract of contracts/streamable_complete.vrs (canonicity PLUS decoder completeness); every
    # derived parse then gets the field-by-field prefix chain as its proof (hand-written codecs stay opaque there)
    if complete:
        hw = False
    core = open(os.path.join(VERIF, "contracts", "streamable_complete.vrs" if complete else "streamable_core.vrs")).read()
    body = core.split("verus! {", 1)[1].rsplit("} // verus!", 1)[0]
    L(body)
    L("//@gsub chia_traits::chia_error::Result =>> Result")
    L("//@gsub chia_traits::chia_error::Error =>> Error")
    L("//@gsub chia_traits::Streamable =>> Streamable")
    L("//@gsub chia_sha2::Sha256 =>> Sha256")
    L("//@gsub std::io::Cursor =>> Cursor")
    L("//@gsub \\bString\\b =>> OpaqueString")
    declared_opaque = set()
    known_core = {"Bytes", "BytesImpl"}
    for crate in crates:
        path = expand_crate(crate)
        src = open(path).read()
        structs, impls, aliases, enums = collect(src)
        vsrc = "expanded:" + crate
        assemble._VIRTUAL[vsrc] = src
        for an, at in sorted(aliases.items()):
            if at.name == "BytesImpl" and at.args:
                L("pub type %s = BytesImpl<%s>;" % (an, at.args[0].name))
        hw_dir = os.path.join(VERIF, "contracts", "handwritten")
        handwritten = sorted(f[:-5] for f in os.listdir(hw_dir) if f.endswith(".part") and not f.startswith("_")
                             and f[:-5] in structs) if os.path.isdir(hw_dir) and hw else []
        derived = [n for n in impls if n in structs and not structs[n]["generic"] and not structs[n]["tuple"]
                   and n not in known_core]
        # hand-written impls use plain `impl Streamable for X` (no chia_traits:: prefix) and are not in `impls`
        stats["derived_impls"] += len(derived)
        chosen = sorted(derived)[:limit] if limit else sorted(derived)
        if part == "hw":
            chosen = []
        elif part is not None:
            chosen = [n for i, n in enumerate(chosen) if i % parts == part]
            handwritten = []
        covered = set(chosen) | set(handwritten)

        def resolve(te):
            """Return a type text usable in the unit; register opaque types as needed."""
            if te.tuple is not None:
                return "(" + ", ".join(resolve(x) for x in te.tuple) + ("," if len(te.tuple) == 1 else "") + ")"
            if te.array:
                stats["uses_array"] = True
                return "[%s; %s]" % (resolve(te.array[0]), te.array[1])
            n = te.name
            if n in PRIMS or n == "Bytes":
                return n
            if n == "BytesImpl":
                return "BytesImpl<%s>" % te.args[0].name
            if n in ("Option", "Vec"):
                return "%s<%s>" % (n, resolve(te.args[0]))
            if n in aliases and n not in structs:
                return resolve(aliases[n])
            if n in covered:
                return n
            if n == "String":
                n = "OpaqueString"
            declared_opaque.add(n)
            return n

        emitted = 0
        for name in chosen:
            st = structs[name]
            sel_mod = "::".join(st["path"])
            pre = (sel_mod + "::") if sel_mod else ""
            ftypes = [(f, resolve(t)) for f, t in st["fields"]]
            # struct declaration with resolved field types (text regenerated: field names/order from the expansion)
            L("pub struct %s {" % name)
            for f, t in ftypes:
                L("    pub %s: %s," % (f, t))
            L("}")
            L("impl Streamable for %s {" % name)
            expr = "p"
            for f, _ in ftypes:
                expr = "self.%s.enc_onto(%s)" % (f, expr)
            L("    closed spec fn enc_onto(&self, p: Seq<u8>) -> Seq<u8> { %s }" % expr)
            L("    closed spec fn dig_onto(&self, p: Seq<u8>) -> Seq<u8> { %s }" % expr.replace(".enc_onto(", ".dig_onto("))
            L("    closed spec fn wf(&self) -> bool { %s }" % (" && ".join("self.%s.wf()" % f for f, _ in ftypes) or "true"))
            L("    closed spec fn hashable(&self) -> bool { %s }" % (" && ".join("self.%s.hashable()" % f for f, _ in ftypes) or "true"))
            # lemma: chain
            L("    proof fn lemma_enc_appends(&self, p: Seq<u8>) {")
            L("        let e = Seq::<u8>::empty();")
            L("        let c0 = p; let d0 = e;")
            L("        assert(c0 =~= p + d0);")
            for idx, (f, _) in enumerate(ftypes):
                k = idx + 1
                L("        let c%d = self.%s.enc_onto(c%d); let d%d = self.%s.enc_onto(d%d);" % (k, f, idx, k, f, idx))
                L("        lemma_enc_step(&self.%s, c%d, d%d, p);" % (f, idx, idx))
            L("    }")
            hdr = impls[name]["header"]
            for fn in ("update_digest", "stream", "parse"):
                L("//@extract %s %simpl:%s::fn:%s" % (vsrc, pre, hdr, fn))
                if emitted % 10 != 0:
                    L("//@no_canary")   # vacuity canaries on every 10th struct (same trait contract everywhere)
                if complete and fn == "parse" and len(ftypes) >= 2:
                    # completeness: if x's encoding starts at the cursor, so does the encoding of every prefix of its fields
                    encs = ["b.take(p)"]
                    for f, _ in ftypes:
                        encs.append("x.%s.enc_onto(%s)" % (f, encs[-1]))
                    L("//@body_start")
                    L("        proof {")
                    L("            let b = input.buf(); let p = input.pos() as int;")
                    L("            assert forall|x: %s| #![trigger x.enc_onto(b.take(p))] x.wf() && starts_seq(x.enc_onto(b.take(p)), b, p) implies" % name)
                    L("                " + " && ".join("starts_seq(%s, b, p)" % encs[k] for k in range(1, len(ftypes))) + " by {")
                    for k in range(len(ftypes) - 1, 0, -1):
                        L("                lemma_prefix_chain(&x.%s, %s, b);" % (ftypes[k][0], encs[k]))
                    L("            }")
                    L("        }")
                L("//@end")
            L("}")
            emitted += 1
        stats["covered"] += emitted
        if handwritten:
            L("//@include contracts/handwritten/_utils.part")
            L("//@include contracts/handwritten/_string.part")
        for name in handwritten:
            st = structs[name]
            if not st.get("tuple"):
                L("pub struct %s {" % name)
                for f, t in st["fields"]:
                    L("    pub %s: %s," % (f, resolve(t)))
                L("}")
            # tuple structs are extracted from the source by the part itself
            L("//@include contracts/handwritten/%s.part" % name)
        stats["handwritten"] = handwritten
    for n in sorted(declared_opaque):
        L("// ASSUMED Streamable contract for a field type outside this unit")
        L("#[verifier::external_body]")
        L("pub struct %s { _p: [u8; 0] }" % n)
        L("uninterp spec fn opaque_enc_%s(v: &%s) -> Seq<u8>;" % (n, n))
        L("uninterp spec fn opaque_wf_%s(v: &%s) -> bool;" % (n, n))
        L("uninterp spec fn opaque_dig_%s(v: &%s) -> Seq<u8>;" % (n, n))
        L("uninterp spec fn opaque_hashable_%s(v: &%s) -> bool;" % (n, n))
        L("impl Streamable for %s {" % n)
        L("    closed spec fn enc_onto(&self, p: Seq<u8>) -> Seq<u8> { p + opaque_enc_%s(self) }" % n)
        L("    closed spec fn dig_onto(&self, p: Seq<u8>) -> Seq<u8> { p + opaque_dig_%s(self) }" % n)
        L("    closed spec fn wf(&self) -> bool { opaque_wf_%s(self) }" % n)
        L("    closed spec fn hashable(&self) -> bool { opaque_hashable_%s(self) }" % n)
        L("    proof fn lemma_enc_appends(&self, p: Seq<u8>) { assert(Seq::<u8>::empty() + opaque_enc_%s(self) =~= opaque_enc_%s(self)); }" % (n, n))
        L("    #[verifier::external_body] fn update_digest(&self, digest: &mut Sha256) { unimplemented!() }")
        L("    #[verifier::external_body] fn stream(&self, out: &mut Vec<u8>) -> Result<()> { unimplemented!() }")
        L("    #[verifier::external_body] fn parse<const TRUSTED: bool>(input: &mut Cursor<&[u8]>) -> Result<Self> { unimplemented!() }")
        L("}")
    if stats.get("uses_array"):
        L("// ASSUMED Streamable contract for fixed-size arrays (real impl iterates `for v in &mut ret`, outside Verus's subset)")
        L("uninterp spec fn opaque_enc_arr<T, const N: usize>(v: &[T; N]) -> Seq<u8>;")
        L("impl<T: Streamable, const N: usize> Streamable for [T; N] {")
        L("    closed spec fn enc_onto(&self, p: Seq<u8>) -> Seq<u8> { p + opaque_enc_arr(self) }")
        L("    closed spec fn dig_onto(&self, p: Seq<u8>) -> Seq<u8> { p + opaque_enc_arr(self) }")
        L("    closed spec fn wf(&self) -> bool { true }")
        L("    closed spec fn hashable(&self) -> bool { true }")
        L("    proof fn lemma_enc_appends(&self, p: Seq<u8>) { assert(Seq::<u8>::empty() + opaque_enc_arr(self) =~= opaque_enc_arr(self)); }")
        L("    #[verifier::external_body] fn update_digest(&self, digest: &mut Sha256) { unimplemented!() }")
        L("    #[verifier::external_body] fn stream(&self, out: &mut Vec<u8>) -> Result<()> { unimplemented!() }")
        L("    #[verifier::external_body] fn parse<const TRUSTED: bool>(input: &mut Cursor<&[u8]>) -> Result<Self> { unimplemented!() }")
        L("}")
    stats["opaque"] = sorted(declared_opaque)
    L("} // verus!")
    L("fn main() {}")
    out = os.path.join(_CACHE, "gen", out_name + ".vrs")
    os.makedirs(os.path.dirname(out), exist_ok=True)
    open(out, "w").write("\n".join(lines) + "\n")
    return out, stats
