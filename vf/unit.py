"""Run one Verus contract unit: assemble from /repo, verify, run canaries, map diagnostics."""
import concurrent.futures as cf
import hashlib
import json
import os
import re
import time

from . import assemble, verus

VERIF = assemble.VERIF
CACHE = os.environ.get("VERIF_CACHE") or os.path.join(VERIF, ".cache")
GEN = os.path.join(CACHE, "gen")

TRUST_PATTERNS = [
    (r"\bassume\s*\(", "assume"),
    (r"\badmit\s*\(", "admit"),
    (r"#\[verifier::external_body\]", "external_body"),
    (r"\bassume_specification\b", "assume_specification"),
    (r"#\[verifier::external\]", "external"),
    (r"#\[verifier::external_type_specification\]", "external_type_specification"),
    (r"exec_allows_no_decreases_clause", "no_decreases"),
    (r"#\[verifier::accept_recursive_types", "accept_recursive_types"),
]


def short_kind(msg):
    table = [
        ("postcondition not satisfied", "post"),
        ("precondition not satisfied", "pre"),
        ("possible arithmetic underflow/overflow", "overflow"),
        ("possible division by zero", "div0"),
        ("assertion failed", "assert"),
        ("invariant not satisfied at end of loop body", "inv-preserve"),
        ("invariant not satisfied before loop", "inv-entry"),
        ("invariant not satisfied", "inv"),
        ("decreases not satisfied", "decreases"),
        ("possible bit shift", "shift"),
        ("unreachable", "unreachable"),
    ]
    for k, v in table:
        if k in msg:
            return v
    return re.sub(r"[^a-z]+", "-", msg.lower())[:24]


def _h(s):
    return hashlib.sha256(re.sub(r"\s+", " ", s.strip()).encode()).hexdigest()[:8]


class UnitResult:
    def __init__(self, name):
        self.name = name
        self.backend = "verus/z3"
        self.status = "undecided"
        self.reason = ""
        self.obligations = 0
        self.discharged = 0
        self.functions = []        # infos of extracted items
        self.verus_functions = {}  # verus fn name -> stats
        self.failures = []         # dicts: id, kind, message, function, origin, clause, rendered
        self.trusted = []
        self.canaries = 0
        self.canaries_failed = 0
        self.clauses = 0
        self.wall_s = 0.0
        self.smt_s = 0.0
        self.cmd = ""
        self.gen_path = ""
        self.dropped = []
        self.retries = 0
        self.gen_stats = None
        self.auto_resolved = []

    def to_json(self):
        return {k: getattr(self, k) for k in (
            "name", "backend", "status", "reason", "obligations", "discharged", "canaries",
            "canaries_failed", "clauses", "wall_s", "smt_s", "cmd", "gen_path")} | {
            "functions_under_contract": [
                "%s:%d %s %s sha256=%s%s" % (f["src"], f["line"], f["kind"], f["name"], f["sha256"],
                                             " (ASSUMED contract, body not verified)" if f["assumed"] else "")
                for f in self.functions if f["kind"] == "fn" or f["kind"] == "impl"],
            "items_extracted": len(self.functions),
            "per_function_smt_ms": {k: v["time_ms"] for k, v in self.verus_functions.items()},
            "failures": self.failures,
            "generator_stats": self.gen_stats,
            "auto_resolved_items": self.auto_resolved,
        }


def _origin_str(o):
    if o is None:
        return "?"
    return "%s:%s" % (o[1], o[2])


def count_clauses(lines):
    """Count contract clauses in the generated text: comma-separated entries under
    requires/ensures/invariant/decreases headers + assert(...) statements (overlay + real code)."""
    n = 0
    txt = "\n".join(l.text for l in lines)
    n += len(re.findall(r"\bassert\s*(!\s*)?\(", txt))
    for m in re.finditer(r"\b(requires|ensures|invariant|decreases)\b", txt):
        n += 1
    return n


def scan_trusted(lines):
    out = []
    for idx, l in enumerate(lines):
        t = l.text
        if t.strip().startswith("//"):
            continue
        for rx, tag in TRUST_PATTERNS:
            if re.search(rx, t):
                # name: the next fn/struct identifier within a few lines
                name = ""
                for k in range(idx, min(idx + 6, len(lines))):
                    m = re.search(r"\b(fn|struct|enum|type)\s+([A-Za-z_][A-Za-z0-9_]*)", lines[k].text)
                    m2 = re.search(r"assume_specification[^\[]*\[\s*([^\]]+)\]", lines[k].text)
                    if m2:
                        name = m2.group(1).strip()
                        break
                    if m:
                        name = m.group(2)
                        break
                out.append("%s %s (%s)" % (tag, name, _origin_str(l.origin)))
    return sorted(set(out))


def _resolve_missing(vr, infos, extra):
    """names rustc could not find -> (src, selector) of same-named items in the files already under extraction"""
    missing = set()
    for d in vr.diags:
        m = re.search(r"cannot find (?:value|function|type|struct, variant or union type) `(\w+)` in this scope", d.message)
        if m:
            missing.add(m.group(1))
    found = []
    srcs = sorted({i["src"] for i in infos if not i["src"].startswith(("expand", "<"))})
    for ident in sorted(missing):
        hit = None
        for src in srcs:
            try:
                text = assemble.read_src(src)
            except assemble.Undecided:
                continue
            for kind in ("const", "static", "fn", "struct", "enum", "type"):
                try:
                    assemble.rustlex.find_item(text, "%s:%s" % (kind, ident))
                    hit = (src, "%s:%s" % (kind, ident))
                    break
                except KeyError:
                    continue
            if hit:
                break
        if hit and hit not in extra:
            found.append(hit)
    return found


def run_unit(name, template, rlimit=30, canaries=True, threads=None, generator=None, known_clauses=()):
    os.makedirs(GEN, exist_ok=True)
    res = UnitResult(name)
    t0 = time.time()
    gen_stats = None
    try:
        if generator:
            from . import gen_derived
            tpath, gen_stats = gen_derived.make(**generator)
        else:
            tpath = os.path.join(VERIF, template)
        lines, infos = assemble.assemble(tpath)
    except assemble.Undecided as e:
        res.reason = str(e)
        res.wall_s = time.time() - t0
        return res
    res.functions = infos
    res.gen_stats = gen_stats
    gen = os.path.join(GEN, name + ".rs")
    open(gen, "w").write("\n".join(l.text for l in lines) + "\n")
    res.gen_path = gen
    res.trusted = scan_trusted(lines)
    res.clauses = count_clauses(lines)

    # canary variants
    max_loops = max([max(i["annotated_loops"] or [0]) for i in infos] or [0])
    variants = list(range(0, max_loops + 1)) if canaries else []
    expected = {}
    can_paths = {}
    for v in variants:
        try:
            cl, ci = assemble.assemble(tpath, canary=v)
        except assemble.Undecided as e:
            res.reason = "canary assembly: " + str(e)
            return res
        tags = [l.text for l in cl if "// CANARY " in l.text]
        if not tags:
            continue
        cp = os.path.join(GEN, "%s_canary%d.rs" % (name, v))
        open(cp, "w").write("\n".join(l.text for l in cl) + "\n")
        can_paths[v] = (cp, cl)
        expected[v] = len(tags)

    with cf.ThreadPoolExecutor(max_workers=1 + len(can_paths)) as ex:
        main_f = ex.submit(verus.run, gen, rlimit, None, threads)
        can_f = {v: ex.submit(verus.run, p, rlimit, None, threads, 1800, 0) for v, (p, _) in can_paths.items()}
        vr = main_f.result()
        cres = {v: f.result() for v, f in can_f.items()}

    # items the real code newly references (a helper const / fn added next to the functions under contract) are
    # pulled in verbatim, without contract, instead of giving up on the unit
    extra = []
    for _ in range(3):
        if vr.status != "undecided":
            break
        new = _resolve_missing(vr, infos, extra)
        if not new:
            break
        extra += new
        try:
            lines, infos = assemble.assemble(tpath, extra_items=extra)
        except assemble.Undecided as e:
            break
        res.functions = infos
        open(gen, "w").write("\n".join(l.text for l in lines) + "\n")
        vr = verus.run(gen, rlimit, None, threads)
    res.auto_resolved = ["%s %s" % e for e in extra]
    if extra:
        # the canary variants need the same extra items
        for v in list(can_paths):
            try:
                cl, _ci = assemble.assemble(tpath, canary=v, extra_items=extra)
            except assemble.Undecided:
                continue
            cp = can_paths[v][0]
            open(cp, "w").write("\n".join(l.text for l in cl) + "\n")
            can_paths[v] = (cp, cl)
            expected[v] = len([l for l in cl if "// CANARY " in l.text])
            cres[v] = verus.run(cp, rlimit, None, threads, 1800, 0)

    # A proof found under any solver seed is a proof: re-run failing units with other seeds and keep
    # only the obligations that fail every time (guards against solver instability, never hides a
    # real failure: an obligation that cannot be proved fails under every seed).
    retries = 0
    def _all_known(v):
        # failures whose clause text is listed as a known finding need no stability retry
        return bool(known_clauses) and all(
            any(kc in (lines[d.primary_line() - 1].text if d.primary_line() and d.primary_line() <= len(lines) else "") for kc in known_clauses)
            for d in v.semantic)
    if vr.status == "violation" and not _all_known(vr):
        def _ids(v):
            return {(short_kind(d.message), lines[d.primary_line() - 1].text.strip() if d.primary_line() and d.primary_line() <= len(lines) else "")
                    for d in v.semantic}
        keep = _ids(vr)
        failed_fns = [f for f, st in vr.functions.items() if st.get("success") is False]
        # re-verify only the failing functions (one process each, in parallel), with another solver seed
        def _retry(fn):
            short = fn.split("::")[-1]
            return verus.run(gen, rlimit * 2, ["--smt-option", "smt.random_seed=17", "--verify-root", "--verify-function", "*::" + short if False else short], threads)
        retries = 1
        if failed_fns and len(failed_fns) <= 6:
            with cf.ThreadPoolExecutor(max_workers=len(failed_fns)) as ex2:
                rs = list(ex2.map(_retry, failed_fns))
            if all(r2.status in ("ok", "violation") for r2 in rs):
                k2 = set()
                for r2 in rs:
                    k2 |= _ids(r2)
                keep &= k2
                if not keep:
                    # every failing obligation was proved under the other seed
                    vr.status = "undecided" if any(r2.status == "violation" for r2 in rs) else "ok"
                    vr.reason = "unstable proof: failing obligations differ between solver seeds" if vr.status == "undecided" else ""
                    vr.semantic = []
                    if vr.status == "ok":
                        vr.verified += vr.errors
                        vr.errors = 0
                        for f in failed_fns:
                            vr.functions[f]["success"] = True
            # a retry that could not run (ambiguous function name etc.) leaves the first verdict standing
        if vr.status == "violation":
            vr.semantic = [d for d in vr.semantic if (short_kind(d.message), lines[d.primary_line() - 1].text.strip() if d.primary_line() and d.primary_line() <= len(lines) else "") in keep]
    res.retries = retries
    res.cmd = vr.cmd
    res.verus_functions = vr.functions
    res.smt_s = vr.smt_ms / 1000.0
    res.obligations = vr.verified + vr.errors
    res.discharged = vr.verified

    # map diagnostics
    def enclosing(line):
        for i in infos:
            if i["out_lo"] <= line <= i["out_hi"]:
                return i
        return None

    for d in vr.semantic:
        pl = d.primary_line()
        kind = short_kind(d.message)
        clause_line = pl
        where_line = pl
        if kind == "post":
            where_line = d.label_line("at the end of the function body") or d.label_line("at this exit") or pl
        if kind == "pre":
            # primary = failed precondition (callee's requires); other span = call site
            for s in d.spans:
                if not s[2]:
                    where_line = s[0]
        fn = enclosing(where_line) or enclosing(pl)
        ctext = lines[clause_line - 1].text if clause_line and clause_line <= len(lines) else ""
        wtext = lines[where_line - 1].text if where_line and where_line <= len(lines) else ""
        fname = fn["name"] if fn else "<template>"
        oid = "%s/%s/%s@%s" % (name, fname, kind, _h(ctext))
        res.failures.append({
            "id": oid, "kind": kind, "message": d.message, "function": fname,
            "clause": ctext.strip(), "clause_origin": _origin_str(lines[clause_line - 1].origin) if clause_line else "?",
            "at": wtext.strip(), "at_origin": _origin_str(lines[where_line - 1].origin) if where_line else "?",
            "rendered": d.rendered[-1500:],
        })

    # canaries
    for v, (p, cl) in can_paths.items():
        r = cres[v]
        res.canaries += expected[v]
        hit = set()
        for d in r.semantic:
            ln = d.primary_line()
            if ln and "// CANARY" in cl[ln - 1].text:
                hit.add(ln)
        res.canaries_failed += len(hit)
        if r.status == "undecided" and not r.semantic:
            res.status = "undecided"
            res.reason = "canary run undecided: " + r.reason
            res.wall_s = time.time() - t0
            return res
        if len(hit) < expected[v]:
            missing = [l.text.strip() for i, l in enumerate(cl) if "// CANARY" in l.text and (i + 1) not in hit]
            res.status = "undecided"
            res.reason = "VACUOUS: canary verified (contradictory precondition/axiom?): " + "; ".join(missing[:5])
            res.wall_s = time.time() - t0
            return res

    res.status = vr.status
    res.reason = vr.reason
    if vr.status == "undecided":
        res.reason = vr.reason + " :: " + " | ".join(
            "%s @%s" % (d.message[:200], _origin_str(lines[d.primary_line() - 1].origin) if d.primary_line() and d.primary_line() <= len(lines) else "?")
            for d in vr.other[:4])
    res.wall_s = time.time() - t0
    return res
