"""Minimal Rust lexer + item finder used by the extractor.

Only what is needed to *locate* items and loops structurally in real source
text: it never rewrites tokens on its own.  Handles line/nested block comments,
string / raw string / byte string literals, char literals vs lifetimes.
"""
import re
from dataclasses import dataclass


@dataclass
class Tok:
    kind: str   # ident, punct, lit, lifetime, comment
    text: str
    start: int  # byte offset in source
    end: int


_ident_re = re.compile(r"[A-Za-z_][A-Za-z0-9_]*")
_num_re = re.compile(r"[0-9][A-Za-z0-9_]*(\.[0-9][A-Za-z0-9_]*)?")


class LexError(Exception):
    pass


def lex(src, keep_comments=False):
    toks = []
    i, n = 0, len(src)
    while i < n:
        c = src[i]
        if c.isspace():
            i += 1
            continue
        if src.startswith("//", i):
            j = src.find("\n", i)
            j = n if j < 0 else j
            if keep_comments:
                toks.append(Tok("comment", src[i:j], i, j))
            i = j
            continue
        if src.startswith("/*", i):
            depth, j = 1, i + 2
            while j < n and depth:
                if src.startswith("/*", j):
                    depth += 1
                    j += 2
                elif src.startswith("*/", j):
                    depth -= 1
                    j += 2
                else:
                    j += 1
            if keep_comments:
                toks.append(Tok("comment", src[i:j], i, j))
            i = j
            continue
        # raw strings r"..", r#".."#, br"..", also b"..", c".."
        m = re.match(r"(b|c)?r(#*)\"", src[i:i + 40])
        if m:
            hashes = m.group(2)
            close = '"' + hashes
            j = src.find(close, i + m.end())
            if j < 0:
                raise LexError("unterminated raw string at %d" % i)
            j += len(close)
            toks.append(Tok("lit", src[i:j], i, j))
            i = j
            continue
        if c == '"' or (c in "bc" and i + 1 < n and src[i + 1] == '"'):
            j = i + (1 if c == '"' else 2)
            while j < n and src[j] != '"':
                j += 2 if src[j] == "\\" else 1
            j += 1
            toks.append(Tok("lit", src[i:j], i, j))
            i = j
            continue
        if c == "'" or (c == "b" and i + 1 < n and src[i + 1] == "'"):
            k = i + (1 if c == "'" else 2)
            # char literal: '\x', 'a' ; lifetime: 'ident (no closing quote right after)
            if k < n and src[k] == "\\":
                j = k + 2
                while j < n and src[j] != "'":
                    j += 1
                j += 1
                toks.append(Tok("lit", src[i:j], i, j))
                i = j
                continue
            if k + 1 < n and src[k + 1] == "'":
                j = k + 2
                toks.append(Tok("lit", src[i:j], i, j))
                i = j
                continue
            if c == "'":
                m = _ident_re.match(src, k)
                if m:
                    toks.append(Tok("lifetime", src[i:m.end()], i, m.end()))
                    i = m.end()
                    continue
            # multi-byte char literal like '€'
            j = src.find("'", k)
            if j < 0:
                raise LexError("bad quote at %d" % i)
            j += 1
            toks.append(Tok("lit", src[i:j], i, j))
            i = j
            continue
        m = _ident_re.match(src, i)
        if m:
            toks.append(Tok("ident", m.group(0), i, m.end()))
            i = m.end()
            continue
        m = _num_re.match(src, i)
        if m:
            toks.append(Tok("lit", m.group(0), i, m.end()))
            i = m.end()
            continue
        toks.append(Tok("punct", c, i, i + 1))
        i += 1
    return toks


OPEN = {"(": ")", "[": "]", "{": "}"}
CLOSE = {")", "]", "}"}


def match_close(toks, i):
    """toks[i] is an opening bracket; return index of its matching close."""
    assert toks[i].text in OPEN, toks[i]
    depth = 0
    for j in range(i, len(toks)):
        t = toks[j]
        if t.kind != "punct":
            continue
        if t.text in OPEN:
            depth += 1
        elif t.text in CLOSE:
            depth -= 1
            if depth == 0:
                return j
    raise LexError("unbalanced bracket at %d" % toks[i].start)


def skip_generics(toks, i):
    """toks[i] is '<'; return index just past matching '>' (handles '->' and '>>')."""
    depth = 0
    j = i
    while j < len(toks):
        t = toks[j]
        if t.kind == "punct":
            if t.text == "<":
                depth += 1
            elif t.text == ">":
                if j > 0 and toks[j - 1].text == "-" and toks[j - 1].end == t.start:
                    pass  # '->' inside Fn(..) -> T
                else:
                    depth -= 1
                    if depth == 0:
                        return j + 1
            elif t.text in OPEN:
                j = match_close(toks, j)
        j += 1
    raise LexError("unbalanced generics at %d" % toks[i].start)


ITEM_KW = {"fn", "struct", "enum", "const", "static", "impl", "trait", "type", "mod", "use", "macro_rules", "union"}
QUALIFIERS = {"pub", "async", "unsafe", "extern", "default", "const"}


@dataclass
class Item:
    kind: str       # fn, struct, enum, const, static, impl, trait, mod, macro, use, type
    name: str       # for impl: normalised header text ("Trait for Type" or "Type")
    start: int      # byte offset where the item's attributes/doc start
    head_start: int # byte offset of the first token after attributes (pub/fn/...)
    body_open: int  # byte offset of '{' of body (or -1)
    end: int        # byte offset past the item (past '}' or ';')
    attrs: list     # attribute texts
    tok_lo: int
    tok_hi: int     # token index range [lo, hi)
    body_tok: int   # token index of body '{' or -1


def _norm(s):
    return re.sub(r"\s+", " ", s).strip()


def parse_items(src, toks=None, lo=0, hi=None):
    """Parse the items in token range [lo,hi) (a module body or impl body)."""
    if toks is None:
        toks = lex(src)
    if hi is None:
        hi = len(toks)
    items = []
    i = lo
    while i < hi:
        t0 = i
        attrs = []
        # attributes
        while i < hi and toks[i].text == "#":
            j = i + 1
            if toks[j].text == "!":
                j += 1
            if toks[j].text != "[":
                break
            k = match_close(toks, j)
            attrs.append(src[toks[i].start:toks[k].end])
            i = k + 1
        if i >= hi:
            break
        head = i
        # visibility / qualifiers
        while i < hi:
            t = toks[i]
            if t.text == "pub":
                i += 1
                if i < hi and toks[i].text == "(":
                    i = match_close(toks, i) + 1
                continue
            if t.text in ("async", "unsafe", "default"):
                i += 1
                continue
            if t.text == "extern":
                i += 1
                if i < hi and toks[i].kind == "lit":
                    i += 1
                continue
            if t.text == "const" and i + 1 < hi and toks[i + 1].text in ("fn", "unsafe", "async", "extern"):
                i += 1
                continue
            break
        if i >= hi:
            break
        kw = toks[i].text
        kind, name = None, None
        if kw == "fn":
            kind, name = "fn", toks[i + 1].text
        elif kw in ("struct", "enum", "trait", "type", "mod", "union"):
            kind, name = kw, toks[i + 1].text
        elif kw in ("const", "static"):
            j = i + 1
            if toks[j].text == "mut":
                j += 1
            kind, name = kw, toks[j].text
        elif kw == "use":
            kind, name = "use", ""
        elif kw == "impl":
            kind = "impl"
        elif kw == "macro_rules":
            kind, name = "macro", toks[i + 2].text
        elif toks[i].kind == "ident" and i + 1 < hi and toks[i + 1].text == "!":
            kind, name = "macro_call", toks[i].text
        else:
            # unknown token at item level; skip it
            i += 1
            continue
        # find end: first '{' or ';' at depth 0 (skipping (), [] and generics where needed)
        j = i + 1
        body = -1
        end_tok = None
        while j < hi:
            t = toks[j]
            if t.kind == "punct":
                if t.text in ("(", "["):
                    j = match_close(toks, j) + 1
                    continue
                if t.text == "{":
                    body = j
                    end_tok = match_close(toks, j)
                    break
                if t.text == ";":
                    end_tok = j
                    break
            j += 1
        if end_tok is None:
            raise LexError("item without end at %d" % toks[i].start)
        if kind == "impl":
            name = _norm(src[toks[i + 1].start:toks[body].start]) if body >= 0 else ""
            # drop leading generics "<...>" of "impl<T> X"
            if toks[i + 1].text == "<":
                g = skip_generics(toks, i + 1)
                name = _norm(src[toks[g].start:toks[body].start])
            name = re.sub(r"\s*where .*$", "", name)
        if kind == "macro_call" and body >= 0:
            pass
        # struct Foo {..}  /  struct Foo(..);  / macro_call!(...);
        # macro call with braces has no trailing ';'
        hi_tok = end_tok + 1
        # tuple struct etc: ends at ';' which we handled.  macro_rules! x { } : body found
        items.append(Item(kind, name, toks[t0].start, toks[head].start,
                          toks[body].start if body >= 0 else -1, toks[end_tok].end,
                          attrs, t0, hi_tok, body))
        i = hi_tok
    return items


_LEX_CACHE = {}
_ITEMS_CACHE = {}


def _lex_cached(src):
    key = (len(src), hash(src))
    if key not in _LEX_CACHE:
        _LEX_CACHE[key] = lex(src)
    return _LEX_CACHE[key]


def _items_cached(src, toks, lo, hi):
    key = (len(src), hash(src), lo, hi)
    if key not in _ITEMS_CACHE:
        _ITEMS_CACHE[key] = parse_items(src, toks, lo, hi)
    return _ITEMS_CACHE[key]


def find_item(src, selector):
    """selector: 'fn:name' | 'struct:Name' | 'enum:Name' | 'const:NAME' | 'impl:Header' |
    'impl:Header::fn:name' | 'trait:Name' | 'trait:Name::fn:name' | 'macro:name' | 'mod:name::...'.
    Returns (Item, toks).  Raises KeyError if not found / ambiguous."""
    toks = _lex_cached(src)
    parts = selector.split("::")
    # re-join: selectors are kind:name pairs; names may contain '::' (e.g. impl headers with paths)
    pairs = []
    cur = None
    for p in parts:
        m = re.match(r"^(fn|struct|enum|const|static|impl|trait|macro_call|macro|mod|type|nth):(.*)$", p)
        if m:
            cur = [m.group(1), m.group(2)]
            pairs.append(cur)
        else:
            if cur is None:
                raise KeyError("bad selector " + selector)
            cur[1] += "::" + p
    lo, hi = 0, len(toks)
    item = None
    for idx, (kind, name) in enumerate(pairs):
        items = _items_cached(src, toks, lo, hi)
        nth = None
        m = re.match(r"^(.*)#(\d+)$", name)
        if m:
            name, nth = m.group(1), int(m.group(2))
        cands = [it for it in items if it.kind == kind and _norm(it.name) == _norm(name)]
        if kind == "macro":
            cands = [it for it in items if it.kind == "macro" and it.name == name]
        if not cands:
            raise KeyError("anchor lost: %s (no %s:%s)" % (selector, kind, name))
        if nth is not None:
            if nth > len(cands):
                raise KeyError("anchor lost: %s (#%d of %d)" % (selector, nth, len(cands)))
            item = cands[nth - 1]
        else:
            # ignore cfg(test)/py-bindings duplicates
            live = [c for c in cands if not any("cfg(test)" in a for a in c.attrs)]
            if len(live) != 1:
                raise KeyError("anchor ambiguous: %s (%d candidates)" % (selector, len(live)))
            item = live[0]
        if idx + 1 < len(pairs):
            if item.body_tok < 0:
                raise KeyError("anchor has no body: " + selector)
            lo, hi = item.body_tok + 1, match_close(toks, item.body_tok)
    return item, toks


def loops_in(toks, lo, hi):
    """Return list of (kw_tok_index, body_open_tok_index) for for/while/loop in [lo,hi), in
    source order (nested loops included)."""
    out = []
    i = lo
    while i < hi:
        t = toks[i]
        if t.kind == "ident" and t.text in ("for", "while", "loop"):
            # 'for' in 'impl X for Y' / HRTB 'for<'a>' can't occur inside fn bodies except HRTB
            if t.text == "for" and i + 1 < hi and toks[i + 1].text == "<":
                i += 1
                continue
            j = i + 1
            body = None
            while j < hi:
                tj = toks[j]
                if tj.kind == "punct":
                    if tj.text in ("(", "["):
                        j = match_close(toks, j) + 1
                        continue
                    if tj.text == "{":
                        body = j
                        break
                j += 1
            if body is not None:
                out.append((i, body))
        i += 1
    return out
