"""Kani harnesses on the compiled real crates (/verif/kani crate, path deps on /repo)."""
import os
import re
import shutil
import subprocess
import time

from . import assemble

VERIF = assemble.VERIF
CRATE = os.environ.get("VERIF_KANI_CRATE") or os.path.join(VERIF, "kani")
TARGET = os.path.join(os.environ.get("VERIF_CACHE") or os.path.join(VERIF, ".cache"), "kani-target")


def run_harnesses(c):
    """c: {name, harnesses:[..], complete: bool, bound: str}"""
    t0 = time.time()
    r = {"name": c["name"], "kind": "kani", "backend": "kani/cbmc", "status": "undecided", "reason": "",
         "obligations": 0, "discharged": 0, "failures": [], "samples": [],
         "trusted": ["Kani 0.68 / CBMC 6.11 / rustc MIR of the real crates"], "bounded": []}
    lock = os.path.join(CRATE, "Cargo.lock")
    shutil.copy(os.path.join(assemble.REPO, "Cargo.lock"), lock)
    env = dict(os.environ)
    env["CARGO_NET_OFFLINE"] = "true"
    env["CARGO_TARGET_DIR"] = TARGET
    cmd = ["cargo", "kani"]
    for z in c.get("zflags", []):
        cmd += ["-Z", z]
    for h in c["harnesses"]:
        cmd += ["--harness", h]
    cmd += ["-j", str(c.get("jobs", 4)), "--output-format", "terse"]
    r["cmd"] = " ".join(cmd)
    try:
        p = subprocess.run(cmd, cwd=CRATE, env=env, capture_output=True, text=True, timeout=c.get("timeout", 1800))
    except subprocess.TimeoutExpired:
        r["reason"] = "kani timeout"
        return r
    out = p.stdout + p.stderr
    # with -j N the output is "Thread k: Checking harness X..." followed later by a "Thread k: " result block
    seen = {}
    cur_of_thread = {}
    cur_block = None
    for ln in out.splitlines():
        m = re.match(r"(?:Thread (\d+): )?Checking harness ([\w:]+)\.\.\.", ln)
        if m:
            cur_of_thread[m.group(1) or "0"] = m.group(2)
            if m.group(1) is None:
                cur_block = m.group(2)
                seen[cur_block] = ["UNKNOWN", ""]
            continue
        m = re.match(r"Thread (\d+):\s*$", ln)
        if m:
            cur_block = cur_of_thread.get(m.group(1))
            if cur_block:
                seen[cur_block] = ["UNKNOWN", ""]
            continue
        if ln.startswith("Manual Harness Summary") or ln.startswith("Summary:"):
            cur_block = None
        if cur_block:
            seen[cur_block][1] += ln + "\n"
            m = re.search(r"VERIFICATION:- (SUCCESSFUL|FAILED)", ln)
            if m:
                seen[cur_block][0] = m.group(1)
    for h in c["harnesses"]:
        key = [k for k in seen if k.endswith(h)]
        r["obligations"] += 1
        if not key:
            r["reason"] = "harness %s produced no verdict: %s" % (h, out[-800:])
            r["wall_s"] = time.time() - t0
            return r
        verdict, blk = seen[key[0]]
        if verdict == "SUCCESSFUL":
            r["discharged"] += 1
            nchecks = re.search(r"(\d+) of (\d+) failed", blk)
            r["samples"].append({"obligation": "kani harness " + h, "backend": "kani/cbmc", "verdict": verdict})
        elif verdict == "FAILED":
            failed = re.findall(r"Failed Checks: (.*)", blk)
            unwind = any("unwinding assertion" in f for f in failed)
            if unwind and all("unwinding assertion" in f for f in failed):
                r["reason"] = "harness %s: unwinding bound too small (undecided)" % h
                r["wall_s"] = time.time() - t0
                return r
            r["failures"].append({"id": "%s/%s" % (c["name"], h), "kind": "kani", "function": c.get("function", h),
                                  "message": "Kani harness %s FAILED: %s" % (h, "; ".join(failed[:4])),
                                  "clause": "; ".join(failed[:4]), "rendered": blk[-1500:]})
        else:
            r["reason"] = "harness %s: no verdict (%s)" % (h, blk[-400:])
            r["wall_s"] = time.time() - t0
            return r
    if not c.get("complete", False):
        r["bounded"].append("%s: %s" % (c["name"], c.get("bound", "bounded")))
    r["status"] = "violation" if r["failures"] else "ok"
    r["wall_s"] = time.time() - t0
    return r
