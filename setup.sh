#!/bin/sh
# Offline setup: warm the Verus start-up, build the replay side-car and the Kani harness crate.
set -e
cd "$(dirname "$0")"
mkdir -p .cache/gen evidence/replay
export CARGO_NET_OFFLINE=true
if [ -d replay ]; then
  cp /repo/Cargo.lock replay/Cargo.lock
  (cd replay && CARGO_TARGET_DIR=/verif/.cache/replay-target cargo build --release --offline --quiet) || echo "setup: side-car build failed (checks will report it)"
fi
echo 'use vstd::prelude::*; verus!{ proof fn warm() ensures 1 + 1 == 2int {} } fn main(){}' > .cache/gen/warm.rs
(cd .cache/gen && verus warm.rs >/dev/null 2>&1) || true
if [ -d kani ]; then
  cp /repo/Cargo.lock kani/Cargo.lock
  (cd kani && CARGO_TARGET_DIR=/verif/.cache/kani-target cargo kani --harness u64_to_bytes_is_canon --output-format terse >/dev/null 2>&1) || echo "setup: kani warm-up failed (checks will report it)"
fi
echo setup done
