#!/bin/bash
# usage: tools_seed_a.sh (phase A of tools_seed.sh: everything except the /verif check on /repo) <worktree> <n> <property> "<crates to test>"
# Confirms a seeded defect produced by a sub-agent: demo passes on clean tree, fails with the patch, the existing
# tests of the touched crates still pass with the patch; then runs the /verif check against /repo with the patch.
set -u
WT=$1; N=$2; PROP=$3; CRATES=$4
S=$WT/_seed/$N
export CARGO_TARGET_DIR=${WT}-target
cd $WT || exit 9
git checkout -q -- . ; git clean -fdq -e _seed
DEMO_FILE=$(grep '^+++ b/' $S/demo.diff | head -1 | sed 's|+++ b/||')
DEMO_CRATE=$(echo $DEMO_FILE | sed -E 's|crates/([^/]+)/.*|\1|')
DEMO_TEST=$(basename $DEMO_FILE .rs)
echo "== demo: $DEMO_FILE (crate $DEMO_CRATE test $DEMO_TEST)"
git apply $S/demo.diff || { echo "demo does not apply"; exit 9; }
cargo test --offline -p $DEMO_CRATE --test $DEMO_TEST 2>&1 | grep -E "^test result|^error(\[|:)" | head -3
CLEAN=$?
git apply $S/patch.diff || { echo "patch does not apply"; exit 9; }
echo "== demo with patch (must fail)"
cargo test --offline -p $DEMO_CRATE --test $DEMO_TEST 2>&1 | grep -E "^test result|^error(\[|:)" | head -3
echo "== existing tests with patch (must pass)"
git apply -R $S/demo.diff
for c in $CRATES; do cargo test --offline -p $c 2>&1 | grep -E "^test result" | head -4; done
git checkout -q -- . ; git clean -fdq -e _seed
echo "== phase A done (the /verif check is run by tools_recheck.sh / tools_recheck_all.sh)"
