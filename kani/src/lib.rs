//! Kani harnesses on the *compiled real crates* (no extraction): complete fixed-width proofs and
//! labelled bounded stand-ins.  Each harness states whether it is complete or bounded.
#![allow(dead_code)]

/// executable reading of `canon` in contracts/spec/canon.rs: 0x00 ++ be8(v), strip redundant zeros
fn canon_exec(v: u64) -> ([u8; 9], usize) {
    let be = v.to_be_bytes();
    let mut s = [0u8; 9];
    let mut i = 0;
    while i < 8 {
        s[i + 1] = be[i];
        i += 1;
    }
    let mut start = 0usize;
    // strip: while len>=1 && s[0]==0 && (len==1 || s[1]<0x80)
    while start < 9 && s[start] == 0 && (start == 8 || s[start + 1] < 0x80) {
        start += 1;
    }
    (s, start)
}

#[cfg(kani)]
mod harnesses {
    use super::*;

    /// COMPLETE: all 2^64 inputs; loops bounded by 9 (operand width), unwinding assertions on.
    #[kani::proof]
    #[kani::unwind(11)]
    fn u64_to_bytes_is_canon() {
        let v: u64 = kani::any();
        let got = chia_consensus::make_aggsig_final_message::u64_to_bytes(v);
        let (s, start) = canon_exec(v);
        assert!(got.len() == 9 - start);
        let mut i = 0;
        while i < got.len() {
            assert!(got[i] == s[start + i]);
            i += 1;
        }
    }

    /// COMPLETE over all u64: encode_number(be8(v), false) is canon(v)
    #[kani::proof]
    #[kani::unwind(11)]
    fn encode_number_u64_is_canon() {
        let v: u64 = kani::any();
        let got = clvm_traits::encode_number(&v.to_be_bytes(), false);
        let (s, start) = canon_exec(v);
        assert!(got.len() == 9 - start);
        let mut i = 0;
        while i < got.len() {
            assert!(got[i] == s[start + i]);
            i += 1;
        }
    }

    /// COMPLETE over all u64: decode_number::<8>(encode_number(be8(v))) == be8(v)
    #[kani::proof]
    #[kani::unwind(11)]
    fn decode_encode_u64_roundtrip() {
        let v: u64 = kani::any();
        let enc = clvm_traits::encode_number(&v.to_be_bytes(), false);
        let dec = clvm_traits::decode_number::<8>(&enc, false);
        assert!(dec == Some(v.to_be_bytes()));
    }

    /// COMPLETE over all i64: signed round trip through the canonical form
    #[kani::proof]
    #[kani::unwind(11)]
    fn decode_encode_i64_roundtrip() {
        let v: i64 = kani::any();
        let enc = clvm_traits::encode_number(&v.to_be_bytes(), v < 0);
        // minimality: no redundant leading 0x00 / 0xff
        if enc.len() >= 2 {
            assert!(!(enc[0] == 0x00 && enc[1] & 0x80 == 0));
            assert!(!(enc[0] == 0xff && enc[1] & 0x80 != 0));
        }
        if enc.len() == 1 {
            assert!(enc[0] != 0);
        }
        let dec = clvm_traits::decode_number::<8>(&enc, true);
        assert!(dec == Some(v.to_be_bytes()));
    }

    /// the integer an atom denotes (two's complement, big endian), for atoms of at most 10 bytes
    fn atom_value(b: &[u8; 10], len: usize) -> i128 {
        if len == 0 { return 0; }
        let mut v: i128 = if b[0] & 0x80 != 0 { -1 } else { 0 };
        let mut i = 0;
        while i < len {
            v = (v << 8) | (b[i] as i128);
            i += 1;
        }
        v
    }

    /// COMPLETE over every atom of at most 10 bytes (longer atoms only add padding bytes, which the loop strips one by one):
    /// the signed 64-bit decoder returns exactly the value the atom denotes, and refuses exactly the atoms whose value does
    /// not fit i64
    #[kani::proof]
    #[kani::unwind(12)]
    fn decode_number_i64_is_faithful() {
        let b: [u8; 10] = kani::any();
        let len: usize = kani::any();
        kani::assume(len <= 10);
        let val = atom_value(&b, len);
        match clvm_traits::decode_number::<8>(&b[..len], true) {
            Some(arr) => assert!(i64::from_be_bytes(arr) as i128 == val),
            None => assert!(val < i64::MIN as i128 || val > i64::MAX as i128),
        }
    }

    /// COMPLETE over every atom of at most 10 bytes: the unsigned 64-bit decoder returns exactly the value the atom denotes
    /// and refuses exactly the negative atoms and those above u64::MAX
    #[kani::proof]
    #[kani::unwind(12)]
    fn decode_number_u64_is_faithful() {
        let b: [u8; 10] = kani::any();
        let len: usize = kani::any();
        kani::assume(len <= 10);
        let val = atom_value(&b, len);
        match clvm_traits::decode_number::<8>(&b[..len], false) {
            Some(arr) => assert!(u64::from_be_bytes(arr) as i128 == val),
            None => assert!(val < 0 || val > u64::MAX as i128),
        }
    }

    /// COMPLETE over every atom of at most 6 bytes: the signed 32-bit decoder (a width below the 64-bit one)
    #[kani::proof]
    #[kani::unwind(12)]
    fn decode_number_i32_is_faithful() {
        let b6: [u8; 6] = kani::any();
        let len: usize = kani::any();
        kani::assume(len <= 6);
        let mut b = [0u8; 10];
        let mut i = 0;
        while i < 6 { b[i] = b6[i]; i += 1; }
        let val = atom_value(&b, len);
        match clvm_traits::decode_number::<4>(&b[..len], true) {
            Some(arr) => assert!(i32::from_be_bytes(arr) as i128 == val),
            None => assert!(val < i32::MIN as i128 || val > i32::MAX as i128),
        }
    }
}
