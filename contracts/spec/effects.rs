// ---- contracts/spec/effects.rs : per-condition effects (DESIGN Appendix B) as a tail-recursive spec over the
// condition list.  Written from the statements of C01-C04; only a *projection* of the parser state is modelled
// (costs, locks, amounts, created coins, the relative-condition mark, the pre-fork announcement budget); the
// contract is one-directional: whenever the code accepts, the projection of its result equals this spec.

/// the coin being spent
pub struct CoinCtx {
    pub coin_id: Seq<u8>,
    pub parent: Seq<u8>,
    pub puzzle: Seq<u8>,
    pub amount: u64,
}

pub struct PS {
    pub cost_left: int,
    pub ret_cond_cost: int,
    pub spend_cond_cost: int,
    pub reserve_fee: int,
    pub addition_amount: int,
    pub height_absolute: u32,
    pub seconds_absolute: u64,
    pub before_height_absolute: Option<u32>,
    pub before_seconds_absolute: Option<u64>,
    pub height_relative: Option<u32>,
    pub seconds_relative: Option<u64>,
    pub before_height_relative: Option<u32>,
    pub before_seconds_relative: Option<u64>,
    pub birth_height: Option<u32>,
    pub birth_seconds: Option<u64>,
    pub has_relative: bool,
    pub created: Set<(Seq<u8>, u64)>,
    pub announce_left: int,
}

spec fn cost_conditions(flags: ConsensusFlags) -> bool { flags.has(ConsensusFlags::COST_CONDITIONS) }

/// the consensus cost table (statement of C04): charged before the arguments are looked at
spec fn op_cost(op: u16, flags: ConsensusFlags) -> int {
    if op == 51 { if cost_conditions(flags) { 1_350_000 } else { 1_800_000 } }
    else if 43 <= op <= 50 { 1_200_000 }
    else if (60 <= op <= 67) { if cost_conditions(flags) { 700 } else { 0 } }
    else { if cost_conditions(flags) { 200 } else { 0 } }
}
spec fn unknown_cost(flags: ConsensusFlags) -> int { if cost_conditions(flags) { 200 } else { 0 } }

spec fn charge(st: PS, c: int) -> Option<PS> {
    if st.cost_left < c { None } else {
        Some(PS { cost_left: st.cost_left - c, ret_cond_cost: st.ret_cond_cost + c, spend_cond_cost: st.spend_cond_cost + c, ..st })
    }
}

spec fn max_opt_u32(e: Option<u32>, v: u32) -> Option<u32> { match e { Some(x) => Some(if x >= v { x } else { v }), None => Some(v) } }
spec fn max_opt_u64(e: Option<u64>, v: u64) -> Option<u64> { match e { Some(x) => Some(if x >= v { x } else { v }), None => Some(v) } }
spec fn min_opt_u32(e: Option<u32>, v: u32) -> Option<u32> { match e { Some(x) => Some(if x <= v { x } else { v }), None => Some(v) } }
spec fn min_opt_u64(e: Option<u64>, v: u64) -> Option<u64> { match e { Some(x) => Some(if x <= v { x } else { v }), None => Some(v) } }

/// announcement-class conditions: before COST_CONDITIONS at most 1024 of them per spend
spec fn announce(st: PS, flags: ConsensusFlags) -> Option<PS> {
    if cost_conditions(flags) { Some(st) }
    else if st.announce_left == 0 { None }
    else { Some(PS { announce_left: st.announce_left - 1, ..st }) }
}

/// effect of one parsed condition (None = the rules reject the spend)
#[verifier::opaque]
spec fn step(a: &Allocator, st: PS, c: Condition, flags: ConsensusFlags, coin: CoinCtx) -> Option<PS> {
    match c {
        Condition::ReserveFee(v) => if st.reserve_fee + v > u64::MAX { None } else { Some(PS { reserve_fee: st.reserve_fee + v, ..st }) },
        Condition::CreateCoin(ph, amount, _hint) =>
            if st.created.contains((a.bytes(ph), amount)) { None }
            else { Some(PS { created: st.created.insert((a.bytes(ph), amount)), addition_amount: st.addition_amount + amount, ..st }) },
        // "after" locks keep the maximum, "before" locks the minimum; an empty window is impossible
        Condition::AssertSecondsRelative(s) =>
            if st.before_seconds_relative matches Some(b) && b <= s { None }
            else { Some(PS { seconds_relative: max_opt_u64(st.seconds_relative, s), has_relative: true, ..st }) },
        Condition::AssertSecondsAbsolute(s) => Some(PS { seconds_absolute: if st.seconds_absolute >= s { st.seconds_absolute } else { s }, ..st }),
        Condition::AssertHeightRelative(h) =>
            if st.before_height_relative matches Some(b) && b <= h { None }
            else { Some(PS { height_relative: max_opt_u32(st.height_relative, h), has_relative: true, ..st }) },
        Condition::AssertHeightAbsolute(h) => Some(PS { height_absolute: if st.height_absolute >= h { st.height_absolute } else { h }, ..st }),
        Condition::AssertBeforeSecondsRelative(s) =>
            if st.seconds_relative matches Some(r) && s <= r { None }
            else { Some(PS { before_seconds_relative: min_opt_u64(st.before_seconds_relative, s), has_relative: true, ..st }) },
        Condition::AssertBeforeSecondsAbsolute(s) => Some(PS { before_seconds_absolute: min_opt_u64(st.before_seconds_absolute, s), ..st }),
        Condition::AssertBeforeHeightRelative(h) =>
            if st.height_relative matches Some(r) && h <= r { None }
            else { Some(PS { before_height_relative: min_opt_u32(st.before_height_relative, h), has_relative: true, ..st }) },
        Condition::AssertBeforeHeightAbsolute(h) => Some(PS { before_height_absolute: min_opt_u32(st.before_height_absolute, h), ..st }),
        // self-assertions compare with the coin being spent
        Condition::AssertMyCoinId(id) => if a.bytes(id) == coin.coin_id { Some(st) } else { None },
        Condition::AssertMyParentId(id) => if a.bytes(id) == coin.parent { Some(st) } else { None },
        Condition::AssertMyPuzzlehash(id) => if a.bytes(id) == coin.puzzle { Some(st) } else { None },
        Condition::AssertMyAmount(v) => if v == coin.amount { Some(st) } else { None },
        // a birth assertion must agree with an earlier one
        Condition::AssertMyBirthSeconds(s) =>
            if st.birth_seconds matches Some(b) && b != s { None } else { Some(PS { birth_seconds: Some(s), has_relative: true, ..st }) },
        Condition::AssertMyBirthHeight(h) =>
            if st.birth_height matches Some(b) && b != h { None } else { Some(PS { birth_height: Some(h), has_relative: true, ..st }) },
        Condition::CreateCoinAnnouncement(_) | Condition::CreatePuzzleAnnouncement(_) | Condition::AssertCoinAnnouncement(_)
        | Condition::AssertPuzzleAnnouncement(_) | Condition::AssertConcurrentSpend(_) | Condition::AssertConcurrentPuzzle(_)
        | Condition::SendMessage(_, _, _) | Condition::ReceiveMessage(_, _, _) => announce(st, flags),
        Condition::Softfork(cost) => charge(st, cost as int),
        Condition::SkipRelativeCondition => Some(PS { has_relative: true, ..st }),
        _ => Some(st),
    }
}

/// the whole condition list of one spend, in order; the list must end in the empty atom
#[verifier::opaque]
spec fn run_list(a: &Allocator, iter: NodePtr, flags: ConsensusFlags, st: PS, coin: CoinCtx) -> Option<PS>
    decreases a.height(iter)
{
    match a.node_view(iter) {
        NodeView::Atom(b) => if b.len() == 0 { Some(st) } else { None },
        NodeView::Pair(c, next) =>
            if !(a.height(next) < a.height(iter)) { None }
            else if !a.is_pair(c) { None }
            else { match opcode_spec(a, a.left(c)) {
                None => if no_unknown(flags) { None } else { match charge(st, unknown_cost(flags)) {
                    Some(st1) => run_list(a, next, flags, st1, coin), None => None } },
                Some(op) => match charge(st, op_cost(op, flags)) {
                    None => None,
                    Some(st1) => match parse_args_spec(a, a.right(c), op, flags) {
                        None => None,
                        Some(cond) => match step(a, st1, cond, flags, coin) {
                            Some(st2) => run_list(a, next, flags, st2, coin),
                            None => None,
                        },
                    },
                },
            } },
    }
}
