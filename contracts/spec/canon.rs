// ---- contracts/spec/canon.rs : the canonical CLVM integer form (oracle for C11, used by C02/C05/C08) ----
// Written from the statement of C11: "the unique minimal big-endian two's-complement form":
// take the 8 big-endian bytes with a 0x00 sign byte in front, and remove a leading zero byte for
// as long as it is redundant (i.e. the number stays non-negative without it).  Zero is the empty atom.

spec fn be8(v: u64) -> Seq<u8> {
    seq![(v >> 56) as u8, (v >> 48) as u8, (v >> 40) as u8, (v >> 32) as u8,
         (v >> 24) as u8, (v >> 16) as u8, (v >> 8) as u8, v as u8]
}

spec fn strip(s: Seq<u8>) -> Seq<u8>
    decreases s.len()
{
    if s.len() >= 1 && s[0] == 0 && (s.len() == 1 || s[1] < 0x80) {
        strip(s.subrange(1, s.len() as int))
    } else {
        s
    }
}

spec fn canon(v: u64) -> Seq<u8> {
    strip(seq![0u8] + be8(v))
}

/// CLVM serialisation length of an atom (format: 1 byte for the empty atom and for a single byte
/// < 0x80; otherwise a size prefix of 1 byte below 0x40, 2 bytes below 0x2000, ... plus the bytes)
spec fn ser_atom_len(s: Seq<u8>) -> nat {
    if s.len() == 0 { 1 }
    else if s.len() == 1 && s[0] < 0x80 { 1 }
    else if s.len() < 0x40 { 1 + s.len() }
    else if s.len() < 0x2000 { 2 + s.len() }
    else if s.len() < 0x10_0000 { 3 + s.len() }
    else if s.len() < 0x800_0000 { 4 + s.len() }
    else { 5 + s.len() }
}

/// The ladder every encoder in the repository uses, derived from the definition above.
proof fn lemma_canon_ladder(v: u64)
    ensures
        v >= 0x8000_0000_0000_0000 ==> canon(v) == seq![0u8] + be8(v),
        0x0080_0000_0000_0000 <= v < 0x8000_0000_0000_0000 ==> canon(v) == be8(v),
        0x8000_0000_0000 <= v < 0x0080_0000_0000_0000 ==> canon(v) == be8(v).subrange(1, 8),
        0x0080_0000_0000 <= v < 0x8000_0000_0000 ==> canon(v) == be8(v).subrange(2, 8),
        0x8000_0000 <= v < 0x0080_0000_0000 ==> canon(v) == be8(v).subrange(3, 8),
        0x0080_0000 <= v < 0x8000_0000 ==> canon(v) == be8(v).subrange(4, 8),
        0x8000 <= v < 0x0080_0000 ==> canon(v) == be8(v).subrange(5, 8),
        0x80 <= v < 0x8000 ==> canon(v) == be8(v).subrange(6, 8),
        0 < v < 0x80 ==> canon(v) == be8(v).subrange(7, 8),
        v == 0 ==> canon(v) == be8(v).subrange(8, 8),
        0 < v < 0x80 ==> canon(v)[0] < 0x80,
{
    let s0 = seq![0u8] + be8(v);
    let b = be8(v);
    assert(s0.len() == 9);
    assert(v >= 0x8000_0000_0000_0000 <==> ((v >> 56) as u8) >= 0x80) by(bit_vector);
    assert(v < 0x0100_0000_0000_0000 <==> ((v >> 56) as u8) == 0) by(bit_vector);
    assert(v < 0x0080_0000_0000_0000 ==> ((v >> 48) as u8) < 0x80) by(bit_vector);
    assert(0x0080_0000_0000_0000 <= v < 0x0100_0000_0000_0000 ==> ((v >> 48) as u8) >= 0x80) by(bit_vector);
    assert(v < 0x0001_0000_0000_0000 <==> (((v >> 56) as u8) == 0 && ((v >> 48) as u8) == 0)) by(bit_vector);
    assert(v < 0x8000_0000_0000 ==> ((v >> 40) as u8) < 0x80) by(bit_vector);
    assert(0x8000_0000_0000 <= v < 0x0001_0000_0000_0000 ==> ((v >> 40) as u8) >= 0x80) by(bit_vector);
    assert(v < 0x0100_0000_0000 <==> (((v >> 56) as u8) == 0 && ((v >> 48) as u8) == 0 && ((v >> 40) as u8) == 0)) by(bit_vector);
    assert(v < 0x0080_0000_0000 ==> ((v >> 32) as u8) < 0x80) by(bit_vector);
    assert(0x0080_0000_0000 <= v < 0x0100_0000_0000 ==> ((v >> 32) as u8) >= 0x80) by(bit_vector);
    assert(v < 0x0001_0000_0000 <==> (((v >> 56) as u8) == 0 && ((v >> 48) as u8) == 0 && ((v >> 40) as u8) == 0 && ((v >> 32) as u8) == 0)) by(bit_vector);
    assert(v < 0x8000_0000 ==> ((v >> 24) as u8) < 0x80) by(bit_vector);
    assert(0x8000_0000 <= v < 0x0001_0000_0000 ==> ((v >> 24) as u8) >= 0x80) by(bit_vector);
    assert(v < 0x0100_0000 <==> (((v >> 56) as u8) == 0 && ((v >> 48) as u8) == 0 && ((v >> 40) as u8) == 0 && ((v >> 32) as u8) == 0 && ((v >> 24) as u8) == 0)) by(bit_vector);
    assert(v < 0x0080_0000 ==> ((v >> 16) as u8) < 0x80) by(bit_vector);
    assert(0x0080_0000 <= v < 0x0100_0000 ==> ((v >> 16) as u8) >= 0x80) by(bit_vector);
    assert(v < 0x0001_0000 <==> (((v >> 56) as u8) == 0 && ((v >> 48) as u8) == 0 && ((v >> 40) as u8) == 0 && ((v >> 32) as u8) == 0 && ((v >> 24) as u8) == 0 && ((v >> 16) as u8) == 0)) by(bit_vector);
    assert(v < 0x8000 ==> ((v >> 8) as u8) < 0x80) by(bit_vector);
    assert(0x8000 <= v < 0x0001_0000 ==> ((v >> 8) as u8) >= 0x80) by(bit_vector);
    assert(v < 0x0100 <==> (((v >> 56) as u8) == 0 && ((v >> 48) as u8) == 0 && ((v >> 40) as u8) == 0 && ((v >> 32) as u8) == 0 && ((v >> 24) as u8) == 0 && ((v >> 16) as u8) == 0 && ((v >> 8) as u8) == 0)) by(bit_vector);
    assert(v < 0x80 ==> (v as u8) < 0x80) by(bit_vector);
    assert(0x80 <= v < 0x100 ==> (v as u8) >= 0x80) by(bit_vector);
    assert(v == 0 <==> (((v >> 56) as u8) == 0 && ((v >> 48) as u8) == 0 && ((v >> 40) as u8) == 0 && ((v >> 32) as u8) == 0 && ((v >> 24) as u8) == 0 && ((v >> 16) as u8) == 0 && ((v >> 8) as u8) == 0 && (v as u8) == 0)) by(bit_vector);
    let s1 = s0.subrange(1, 9); let s2 = s1.subrange(1, 8); let s3 = s2.subrange(1, 7); let s4 = s3.subrange(1, 6);
    let s5 = s4.subrange(1, 5); let s6 = s5.subrange(1, 4); let s7 = s6.subrange(1, 3); let s8 = s7.subrange(1, 2);
    let s9 = s8.subrange(1, 1);
    assert(s1 =~= b);
    assert(s2 =~= b.subrange(1, 8)); assert(s3 =~= b.subrange(2, 8)); assert(s4 =~= b.subrange(3, 8));
    assert(s5 =~= b.subrange(4, 8)); assert(s6 =~= b.subrange(5, 8)); assert(s7 =~= b.subrange(6, 8));
    assert(s8 =~= b.subrange(7, 8)); assert(s9 =~= b.subrange(8, 8));
    reveal_with_fuel(strip, 11);
}

/// length classes of canon(v) (follows from the ladder)
proof fn lemma_canon_len(v: u64)
    ensures
        v == 0 ==> canon(v).len() == 0,
        0 < v < 0x80 ==> canon(v).len() == 1 && canon(v)[0] < 0x80,
        0x80 <= v < 0x8000 ==> canon(v).len() == 2,
        0x8000 <= v < 0x0080_0000 ==> canon(v).len() == 3,
        0x0080_0000 <= v < 0x8000_0000 ==> canon(v).len() == 4,
        0x8000_0000 <= v < 0x0080_0000_0000 ==> canon(v).len() == 5,
        0x0080_0000_0000 <= v < 0x8000_0000_0000 ==> canon(v).len() == 6,
        0x8000_0000_0000 <= v < 0x0080_0000_0000_0000 ==> canon(v).len() == 7,
        0x0080_0000_0000_0000 <= v < 0x8000_0000_0000_0000 ==> canon(v).len() == 8,
        v >= 0x8000_0000_0000_0000 ==> canon(v).len() == 9,
{
    lemma_canon_ladder(v);
}
