// ---- contracts/spec/rules.rs : the condition rule table (DESIGN Appendix A) as spec functions ----
// Written from the property statements C01/C03/C11 and crates/chia-consensus/README.md, *not* from
// parse_args: table-driven (argument kinds, integer width, what a negative / oversized integer
// does, strict terminator position) instead of one arm per opcode.

// list navigation on the abstract tree
spec fn nth(a: &Allocator, c: NodePtr, i: nat) -> Option<NodePtr>
    decreases i
{
    if !a.is_pair(c) { None } else if i == 0 { Some(a.left(c)) } else { nth(a, a.right(c), (i - 1) as nat) }
}

spec fn tail(a: &Allocator, c: NodePtr, i: nat) -> Option<NodePtr>
    decreases i
{
    if i == 0 { Some(c) } else if !a.is_pair(c) { None } else { tail(a, a.right(c), (i - 1) as nat) }
}

spec fn is_nil_atom(a: &Allocator, n: NodePtr) -> bool { a.is_atom(n) && a.bytes(n).len() == 0 }
spec fn atom_len_is(a: &Allocator, n: NodePtr, k: nat) -> bool { a.is_atom(n) && a.bytes(n).len() == k }
spec fn atom_len_le(a: &Allocator, n: NodePtr, k: nat) -> bool { a.is_atom(n) && a.bytes(n).len() <= k }

/// the i-th tail exists and is the empty atom
spec fn ends_at(a: &Allocator, c: NodePtr, i: nat) -> bool {
    tail(a, c, i) matches Some(t) && is_nil_atom(a, t)
}

// ---------------------------------------------------------------- opcode atom (35-code whitelist)
spec fn known_opcode_byte(b: u8) -> bool {
    b == 1 || (43 <= b <= 52) || (60 <= b <= 67) || (70 <= b <= 76) || (80 <= b <= 87) || b == 90
}

spec fn opcode_spec(a: &Allocator, n: NodePtr) -> Option<u16> {
    if a.is_atom(n) {
        let s = a.bytes(n);
        if s.len() == 2 && s[0] != 0 { Some((s[0] as u16 * 256 + s[1] as u16) as u16) }
        else if s.len() == 1 && known_opcode_byte(s[0]) { Some(s[0] as u16) }
        else { None }
    } else { None }
}

// ---------------------------------------------------------------- table: single-integer conditions
pub enum Disp { Reject, Skip, SkipRel }

spec fn is_int_op(op: u16) -> bool {
    op == 52 || op == 73 || op == 74 || op == 75 || (80 <= op <= 87)
}
/// width in bytes: heights are 32 bit, seconds and amounts 64 bit
spec fn int_width(op: u16) -> nat {
    if op == 75 || op == 82 || op == 83 || op == 86 || op == 87 { 4 } else { 8 }
}
/// a negative argument: "after" locks become tautologies (relative ones still count as relative), everything else fails
spec fn neg_disp(op: u16) -> Disp {
    if op == 80 || op == 82 { Disp::SkipRel } else if op == 81 || op == 83 { Disp::Skip } else { Disp::Reject }
}
/// an argument beyond the width: "before" locks become tautologies, everything else fails
spec fn pos_disp(op: u16) -> Disp {
    if op == 84 || op == 86 { Disp::SkipRel } else if op == 85 || op == 87 { Disp::Skip } else { Disp::Reject }
}
spec fn int_cond(op: u16, v: nat) -> Condition {
    if op == 52 { Condition::ReserveFee(v as u64) }
    else if op == 73 { Condition::AssertMyAmount(v as u64) }
    else if op == 74 { Condition::AssertMyBirthSeconds(v as u64) }
    else if op == 75 { Condition::AssertMyBirthHeight(v as u32) }
    else if op == 80 { Condition::AssertSecondsRelative(v as u64) }
    else if op == 81 { Condition::AssertSecondsAbsolute(v as u64) }
    else if op == 82 { Condition::AssertHeightRelative(v as u32) }
    else if op == 83 { Condition::AssertHeightAbsolute(v as u32) }
    else if op == 84 { Condition::AssertBeforeSecondsRelative(v as u64) }
    else if op == 85 { Condition::AssertBeforeSecondsAbsolute(v as u64) }
    else if op == 86 { Condition::AssertBeforeHeightRelative(v as u32) }
    else { Condition::AssertBeforeHeightAbsolute(v as u32) }
}
spec fn disp_result(d: Disp) -> Option<Condition> {
    match d { Disp::Reject => None, Disp::Skip => Some(Condition::Skip), Disp::SkipRel => Some(Condition::SkipRelativeCondition) }
}

// ---------------------------------------------------------------- table: single 32-byte-hash / message conditions
spec fn is_hash32_op(op: u16) -> bool { op == 61 || op == 63 || op == 64 || op == 65 || op == 70 || op == 71 || op == 72 }
spec fn hash32_cond(op: u16, n: NodePtr) -> Condition {
    if op == 61 { Condition::AssertCoinAnnouncement(n) }
    else if op == 63 { Condition::AssertPuzzleAnnouncement(n) }
    else if op == 64 { Condition::AssertConcurrentSpend(n) }
    else if op == 65 { Condition::AssertConcurrentPuzzle(n) }
    else if op == 70 { Condition::AssertMyCoinId(n) }
    else if op == 71 { Condition::AssertMyParentId(n) }
    else { Condition::AssertMyPuzzlehash(n) }
}
spec fn is_agg_sig_op(op: u16) -> bool { 43 <= op <= 50 }
spec fn agg_sig_cond(op: u16, pk: NodePtr, msg: NodePtr) -> Condition {
    if op == 43 { Condition::AggSigParent(pk, msg) }
    else if op == 44 { Condition::AggSigPuzzle(pk, msg) }
    else if op == 45 { Condition::AggSigAmount(pk, msg) }
    else if op == 46 { Condition::AggSigPuzzleAmount(pk, msg) }
    else if op == 47 { Condition::AggSigParentAmount(pk, msg) }
    else if op == 48 { Condition::AggSigParentPuzzle(pk, msg) }
    else if op == 49 { Condition::AggSigUnsafe(pk, msg) }
    else { Condition::AggSigMe(pk, msg) }
}

// ---------------------------------------------------------------- message conditions
/// canonical small integer using only bits 0..5
spec fn msg_mode_spec(a: &Allocator, n: NodePtr) -> Option<u32> {
    if a.is_atom(n) && is_canonical(a.bytes(n)) && be_val(a.bytes(n)) < 0x40 { Some(be_val(a.bytes(n)) as u32) } else { None }
}

/// the committed fields of the *other* party selected by 3 mode bits; returns (SpendId, number of arguments used)
spec fn spend_id_spec(a: &Allocator, c: NodePtr, mode: u8) -> Option<(SpendId, nat)> {
    if mode == 0b111 {
        match nth(a, c, 0) {
            Some(id) => if atom_len_is(a, id, 32) { Some((SpendId::CoinId(id), 1nat)) } else { None },
            None => None,
        }
    } else {
        let want_parent = mode & 0b100 != 0;
        let want_puzzle = mode & 0b010 != 0;
        let want_amount = mode & 0b001 != 0;
        let i_parent = 0nat;
        let i_puzzle: nat = if want_parent { 1 } else { 0 };
        let i_amount: nat = i_puzzle + if want_puzzle { 1nat } else { 0nat };
        let used: nat = i_amount + if want_amount { 1nat } else { 0nat };
        let parent_ok = !want_parent || (nth(a, c, i_parent) matches Some(p) && atom_len_is(a, p, 32));
        let puzzle_ok = !want_puzzle || (nth(a, c, i_puzzle) matches Some(p) && atom_len_is(a, p, 32));
        let amount_ok = !want_amount || (nth(a, c, i_amount) matches Some(p) && a.is_atom(p)
            && uint_class(a.bytes(p), 8) is Value);
        if parent_ok && puzzle_ok && amount_ok {
            let parent = if want_parent { nth(a, c, i_parent).unwrap() } else { NodePtr::NIL };
            let puzzle = if want_puzzle { nth(a, c, i_puzzle).unwrap() } else { NodePtr::NIL };
            let amount: u64 = if want_amount { uint_class(a.bytes(nth(a, c, i_amount).unwrap()), 8)->Value_0 as u64 } else { 0 };
            let id = if mode == 0b100 { SpendId::Parent(parent) }
                else if mode == 0b010 { SpendId::Puzzle(puzzle) }
                else if mode == 0b001 { SpendId::Amount(amount) }
                else if mode == 0b110 { SpendId::ParentPuzzle(parent, puzzle) }
                else if mode == 0b101 { SpendId::ParentAmount(parent, amount) }
                else if mode == 0b011 { SpendId::PuzzleAmount(puzzle, amount) }
                else { SpendId::None };
            Some((id, used))
        } else { None }
    }
}

// ---------------------------------------------------------------- the rule table
spec fn strict_args(flags: ConsensusFlags) -> bool { flags.has(ConsensusFlags::STRICT_ARGS_COUNT) }
spec fn no_unknown(flags: ConsensusFlags) -> bool { flags.has(ConsensusFlags::NO_UNKNOWN_CONDS) }

spec fn parse_args_spec(a: &Allocator, c: NodePtr, op: u16, flags: ConsensusFlags) -> Option<Condition> {
    let strict = strict_args(flags);
    if is_agg_sig_op(op) {
        // pk: 48-byte atom; msg: atom <= 1024; strict: nil right after 2 args
        match (nth(a, c, 0), nth(a, c, 1)) {
            (Some(pk), Some(msg)) =>
                if atom_len_is(a, pk, 48) && atom_len_le(a, msg, 1024) && (strict ==> ends_at(a, c, 2)) {
                    Some(agg_sig_cond(op, pk, msg))
                } else { None },
            _ => None,
        }
    } else if op == 51 {
        // CREATE_COIN: puzzle hash (32), amount U64, then *some* tail node
        match (nth(a, c, 0), nth(a, c, 1)) {
            (Some(ph), Some(am)) =>
                if atom_len_is(a, ph, 32) && a.is_atom(am) && uint_class(a.bytes(am), 8) is Value {
                    let amount = uint_class(a.bytes(am), 8)->Value_0 as u64;
                    let t = tail(a, c, 2).unwrap();
                    if a.is_pair(t) {
                        // memo list present: hint = its first element if that is an atom of <= 32 bytes
                        if strict && !is_nil_atom(a, a.right(t)) { None } else {
                            let memos = a.left(t);
                            let hint = if a.is_pair(memos) && atom_len_le(a, a.left(memos), 32) { a.left(memos) } else { NodePtr::NIL };
                            Some(Condition::CreateCoin(ph, amount, hint))
                        }
                    } else if strict && !is_nil_atom(a, t) { None }
                    else { Some(Condition::CreateCoin(ph, amount, NodePtr::NIL)) }
                } else { None },
            _ => None,
        }
    } else if op == 90 {
        // SOFTFORK: U32 cost argument, charged x 10 000; unknown in mempool mode
        if no_unknown(flags) { None } else {
            match nth(a, c, 0) {
                Some(n) => if a.is_atom(n) && uint_class(a.bytes(n), 4) is Value {
                        Some(Condition::Softfork((uint_class(a.bytes(n), 4)->Value_0 * 10000) as u64))
                    } else { None },
                None => None,
            }
        }
    } else if op >= 256 {
        if no_unknown(flags) { None } else { Some(Condition::Softfork(unknown_cost_spec(op))) }
    } else if is_int_op(op) {
        match nth(a, c, 0) {
            Some(n) =>
                if strict && !ends_at(a, c, 1) { None }
                else if !a.is_atom(n) { None }
                else { match uint_class(a.bytes(n), int_width(op)) {
                    UintClass::NonCanonical => None,
                    UintClass::Negative => disp_result(neg_disp(op)),
                    UintClass::Positive => disp_result(pos_disp(op)),
                    UintClass::Value(v) => Some(int_cond(op, v)),
                } },
            None => None,
        }
    } else if op == 60 || op == 62 {
        match nth(a, c, 0) {
            Some(n) => if (strict ==> ends_at(a, c, 1)) && atom_len_le(a, n, 1024) {
                    Some(if op == 60 { Condition::CreateCoinAnnouncement(n) } else { Condition::CreatePuzzleAnnouncement(n) })
                } else { None },
            None => None,
        }
    } else if is_hash32_op(op) {
        match nth(a, c, 0) {
            Some(n) => if (strict ==> ends_at(a, c, 1)) && atom_len_is(a, n, 32) { Some(hash32_cond(op, n)) } else { None },
            None => None,
        }
    } else if op == 76 {
        if strict && !is_nil_atom(a, c) { None } else { Some(Condition::AssertEphemeral) }
    } else if op == 66 || op == 67 {
        // mode, message, then the other party's committed fields
        match (nth(a, c, 0), nth(a, c, 1)) {
            (Some(m), Some(msg)) => match msg_mode_spec(a, m) {
                Some(mode) => if !atom_len_le(a, msg, 1024) { None } else {
                    let other: u8 = if op == 66 { (mode & 0b111) as u8 } else { ((mode >> 3) & 0b111) as u8 };
                    let own: u8 = if op == 66 { ((mode >> 3) & 0b111) as u8 } else { (mode & 0b111) as u8 };
                    let rest2 = tail(a, c, 2).unwrap();
                    match spend_id_spec(a, rest2, other) {
                        Some((id, used)) =>
                            if strict && !ends_at(a, rest2, used) { None }
                            else if op == 66 { Some(Condition::SendMessage(own, id, msg)) }
                            else { Some(Condition::ReceiveMessage(id, own, msg)) },
                        None => None,
                    }
                },
                None => None,
            },
            _ => None,
        }
    } else if op == 1 {
        Some(Condition::Skip)
    } else {
        None
    }
}
