// ---- contracts/spec/uint.rs : big-endian value of an atom and the condition-integer classes (C11/C01) ----
spec fn be_val(s: Seq<u8>) -> nat
    decreases s.len()
{
    if s.len() == 0 { 0 } else { be_val(s.drop_last()) * 256 + s.last() as nat }
}

spec fn pow256(n: nat) -> nat
    decreases n
{
    if n == 0 { 1 } else { 256 * pow256((n - 1) as nat) }
}

/// classification of an atom offered as a condition integer of width `w` bytes (statement of C11):
/// redundant leading zero => rejected; top bit set => negative; value >= 256^w => positive overflow.
pub enum UintClass {
    Value(nat),
    Negative,
    Positive,
    NonCanonical,
}

spec fn uint_class(s: Seq<u8>, w: nat) -> UintClass {
    if s.len() == 0 { UintClass::Value(0) }
    else if s[0] >= 0x80 { UintClass::Negative }
    else if s[0] == 0 && (s.len() == 1 || s[1] < 0x80) { UintClass::NonCanonical }
    else if be_val(s) >= pow256(w) { UintClass::Positive }
    else { UintClass::Value(be_val(s)) }
}

proof fn lemma_pow256_mono(a: nat, b: nat)
    requires a <= b,
    ensures pow256(a) <= pow256(b), pow256(a) >= 1,
    decreases b,
{
    if a == 0 {
        if b > 0 { lemma_pow256_mono(0, (b - 1) as nat); }
    } else if a < b {
        lemma_pow256_mono(a, (b - 1) as nat);
        lemma_pow256_mono(0, a);
    } else {
        lemma_pow256_mono((a - 1) as nat, (b - 1) as nat);
    }
}

proof fn lemma_pow256_values()
    ensures pow256(0) == 1, pow256(1) == 0x100, pow256(2) == 0x1_0000, pow256(3) == 0x100_0000,
        pow256(4) == 0x1_0000_0000, pow256(5) == 0x100_0000_0000, pow256(6) == 0x1_0000_0000_0000,
        pow256(7) == 0x100_0000_0000_0000, pow256(8) == 0x1_0000_0000_0000_0000,
{
    reveal_with_fuel(pow256, 10);
}

/// be_val(s) < 256^len
proof fn lemma_be_val_bound(s: Seq<u8>)
    ensures be_val(s) < pow256(s.len()),
    decreases s.len(),
{
    if s.len() > 0 {
        lemma_be_val_bound(s.drop_last());
        assert(pow256(s.len()) == 256 * pow256((s.len() - 1) as nat));
    }
}

/// a leading zero byte does not change the value
proof fn lemma_be_val_leading_zero(s: Seq<u8>)
    requires s.len() >= 1, s[0] == 0,
    ensures be_val(s) == be_val(s.subrange(1, s.len() as int)),
    decreases s.len(),
{
    let t = s.subrange(1, s.len() as int);
    if s.len() == 1 {
        assert(s.drop_last().len() == 0);
        assert(be_val(s.drop_last()) == 0);
        assert(s.last() == 0);
        assert(t.len() == 0);
    } else {
        lemma_be_val_leading_zero(s.drop_last());
        assert(s.drop_last().subrange(1, s.len() - 1) =~= t.drop_last());
        assert(t.last() == s.last());
    }
}

/// value of a prefix never exceeds the value of the whole
proof fn lemma_be_val_prefix(s: Seq<u8>, k: int)
    requires 0 <= k <= s.len(),
    ensures be_val(s.take(k)) <= be_val(s),
    decreases s.len() - k,
{
    if k == s.len() {
        assert(s.take(k) =~= s);
    } else {
        lemma_be_val_prefix(s, k + 1);
        assert(s.take(k + 1).drop_last() =~= s.take(k));
    }
}

/// a non-zero first byte puts the value at or above 256^(len-1)
proof fn lemma_be_val_lower(s: Seq<u8>)
    requires s.len() >= 1, s[0] != 0,
    ensures be_val(s) >= pow256((s.len() - 1) as nat),
    decreases s.len(),
{
    if s.len() == 1 {
        assert(s.drop_last().len() == 0);
        assert(be_val(s.drop_last()) == 0);
        assert(s.last() == s[0]);
        assert(be_val(s) == be_val(s.drop_last()) * 256 + s.last() as nat);
        assert(be_val(s) == s[0] as nat);
        assert(pow256(0) == 1);
    } else {
        lemma_be_val_lower(s.drop_last());
        assert(pow256((s.len() - 1) as nat) == 256 * pow256((s.len() - 2) as nat));
    }
}

// ------------------------------------------------------------------ canon(v) decodes back to v
spec fn is_canonical(s: Seq<u8>) -> bool {
    s.len() == 0 || (s[0] < 0x80 && !(s[0] == 0 && (s.len() == 1 || s[1] < 0x80)))
}

proof fn lemma_strip_props(s: Seq<u8>)
    requires s.len() >= 1, s[0] < 0x80,
    ensures is_canonical(strip(s)), be_val(strip(s)) == be_val(s),
    decreases s.len(),
{
    if s[0] == 0 && (s.len() == 1 || s[1] < 0x80) {
        let t = s.subrange(1, s.len() as int);
        lemma_be_val_leading_zero(s);
        if s.len() == 1 {
            assert(t.len() == 0);
            assert(strip(t) == t);
        } else {
            lemma_strip_props(t);
        }
    }
}

proof fn lemma_be_val_be8(v: u64)
    ensures be_val(be8(v)) == v,
{
    let b0 = (v >> 56) as u8; let b1 = (v >> 48) as u8; let b2 = (v >> 40) as u8; let b3 = (v >> 32) as u8;
    let b4 = (v >> 24) as u8; let b5 = (v >> 16) as u8; let b6 = (v >> 8) as u8; let b7 = v as u8;
    let s8 = be8(v);
    let s7 = s8.drop_last(); let s6 = s7.drop_last(); let s5 = s6.drop_last(); let s4 = s5.drop_last();
    let s3 = s4.drop_last(); let s2 = s3.drop_last(); let s1 = s2.drop_last(); let s0 = s1.drop_last();
    assert(s7 =~= seq![b0, b1, b2, b3, b4, b5, b6]);
    assert(s6 =~= seq![b0, b1, b2, b3, b4, b5]);
    assert(s5 =~= seq![b0, b1, b2, b3, b4]);
    assert(s4 =~= seq![b0, b1, b2, b3]);
    assert(s3 =~= seq![b0, b1, b2]);
    assert(s2 =~= seq![b0, b1]);
    assert(s1 =~= seq![b0]);
    assert(s0.len() == 0);
    assert(be_val(s0) == 0);
    assert(be_val(s1) == b0 as nat);
    assert(be_val(s2) == be_val(s1) * 256 + b1 as nat);
    assert(be_val(s3) == be_val(s2) * 256 + b2 as nat);
    assert(be_val(s4) == be_val(s3) * 256 + b3 as nat);
    assert(be_val(s5) == be_val(s4) * 256 + b4 as nat);
    assert(be_val(s6) == be_val(s5) * 256 + b5 as nat);
    assert(be_val(s7) == be_val(s6) * 256 + b6 as nat);
    assert(be_val(s8) == be_val(s7) * 256 + b7 as nat);
    assert(v == ((v >> 56) as u8) as u64 * 0x100_0000_0000_0000 + ((v >> 48) as u8) as u64 * 0x1_0000_0000_0000
        + ((v >> 40) as u8) as u64 * 0x100_0000_0000 + ((v >> 32) as u8) as u64 * 0x1_0000_0000
        + ((v >> 24) as u8) as u64 * 0x100_0000 + ((v >> 16) as u8) as u64 * 0x1_0000
        + ((v >> 8) as u8) as u64 * 0x100 + (v as u8) as u64) by(bit_vector);
}

/// "every decoder returns the original value from it": the canonical form of v is classified as the value v
proof fn lemma_canon_decodes(v: u64)
    ensures
        is_canonical(canon(v)),
        be_val(canon(v)) == v,
        uint_class(canon(v), 8) == UintClass::Value(v as nat),
{
    let s = seq![0u8] + be8(v);
    lemma_strip_props(s);
    lemma_be_val_leading_zero(s);
    assert(s.subrange(1, s.len() as int) =~= be8(v));
    lemma_be_val_be8(v);
    lemma_pow256_values();
}

/// uniqueness: two values with the same canonical form are equal
proof fn lemma_canon_injective(v: u64, w: u64)
    requires canon(v) == canon(w),
    ensures v == w,
{
    lemma_canon_decodes(v);
    lemma_canon_decodes(w);
}

/// conversely, a canonical non-negative atom that fits in 64 bits *is* the canonical form of its value
/// (so `sanitize_uint` returns Ok(v) only on canon(v))
proof fn lemma_canonical_is_canon(s: Seq<u8>, v: u64)
    requires is_canonical(s), be_val(s) == v, s.len() <= 9,
    ensures s == canon(v),
{
    lemma_canon_decodes(v);
    lemma_canonical_unique(s, canon(v));
}

/// two canonical byte strings with the same value are equal
proof fn lemma_canonical_unique(s: Seq<u8>, t: Seq<u8>)
    requires is_canonical(s), is_canonical(t), be_val(s) == be_val(t),
    ensures s == t,
{
    lemma_effective(s);
    lemma_effective(t);
    let es = if s.len() > 0 && s[0] == 0 { s.subrange(1, s.len() as int) } else { s };
    let et = if t.len() > 0 && t[0] == 0 { t.subrange(1, t.len() as int) } else { t };
    // es, et have no leading zero byte (or are empty) and equal values => equal
    lemma_no_leading_zero_unique(es, et);
    if s.len() > 0 && s[0] == 0 {
        // s = 0 ++ es with es[0] >= 0x80; then t must carry the same sign byte
        assert(es[0] >= 0x80);
        assert(et[0] >= 0x80);
        assert(t[0] == 0);
        assert(s =~= seq![0u8] + es);
        assert(t =~= seq![0u8] + et);
    } else if t.len() > 0 && t[0] == 0 {
        assert(et[0] >= 0x80);
        assert(es[0] >= 0x80);
        assert(false);
    }
}

proof fn lemma_effective(s: Seq<u8>)
    requires is_canonical(s),
    ensures
        s.len() > 0 && s[0] == 0 ==> s.len() >= 2 && s[1] >= 0x80
            && be_val(s) == be_val(s.subrange(1, s.len() as int)),
{
    if s.len() > 0 && s[0] == 0 {
        lemma_be_val_leading_zero(s);
    }
}

/// strings without a leading zero byte are determined by their value
proof fn lemma_no_leading_zero_unique(s: Seq<u8>, t: Seq<u8>)
    requires
        s.len() == 0 || s[0] != 0,
        t.len() == 0 || t[0] != 0,
        be_val(s) == be_val(t),
    ensures s == t,
    decreases s.len() + t.len(),
{
    if s.len() == 0 {
        if t.len() > 0 { lemma_be_val_lower(t); lemma_pow256_mono(0, (t.len() - 1) as nat); }
        assert(s =~= t);
    } else if t.len() == 0 {
        lemma_be_val_lower(s); lemma_pow256_mono(0, (s.len() - 1) as nat);
    } else {
        // equal values force equal lengths (256^(len-1) <= val < 256^len)
        lemma_be_val_lower(s); lemma_be_val_bound(s);
        lemma_be_val_lower(t); lemma_be_val_bound(t);
        if s.len() < t.len() { lemma_pow256_mono(s.len(), (t.len() - 1) as nat); }
        if t.len() < s.len() { lemma_pow256_mono(t.len(), (s.len() - 1) as nat); }
        assert(s.len() == t.len());
        lemma_same_len_unique(s, t);
    }
}

proof fn lemma_same_len_unique(s: Seq<u8>, t: Seq<u8>)
    requires s.len() == t.len(), be_val(s) == be_val(t),
    ensures s == t,
    decreases s.len(),
{
    if s.len() == 0 {
        assert(s =~= t);
    } else {
        // be_val(s) = 256*a + x, be_val(t) = 256*b + y with x,y < 256  =>  a == b and x == y
        let a = be_val(s.drop_last()); let b = be_val(t.drop_last());
        let x = s.last() as nat; let y = t.last() as nat;
        assert(a * 256 + x == b * 256 + y);
        assert(a == b && x == y) by(nonlinear_arith)
            requires a * 256 + x == b * 256 + y, x < 256, y < 256;
        lemma_same_len_unique(s.drop_last(), t.drop_last());
        assert(s =~= s.drop_last().push(s.last()));
        assert(t =~= t.drop_last().push(t.last()));
    }
}
