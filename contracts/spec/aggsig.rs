// ---- contracts/spec/aggsig.rs : the signed text of each AGG_SIG condition (statement of C05) ----
// message ‖ coin attributes selected by the opcode ‖ the network's domain-separation constant for that opcode.
// AGG_SIG_UNSAFE (49) signs the message as is.
spec fn aggsig_suffix(op: u16, parent: Seq<u8>, puzzle: Seq<u8>, amount: u64, coin_id: Seq<u8>, k: &ConsensusConstants) -> Seq<u8> {
    if op == 43 { parent + k.agg_sig_parent_additional_data.0@ }
    else if op == 44 { puzzle + k.agg_sig_puzzle_additional_data.0@ }
    else if op == 45 { canon(amount) + k.agg_sig_amount_additional_data.0@ }
    else if op == 46 { puzzle + canon(amount) + k.agg_sig_puzzle_amount_additional_data.0@ }
    else if op == 47 { parent + canon(amount) + k.agg_sig_parent_amount_additional_data.0@ }
    else if op == 48 { parent + puzzle + k.agg_sig_parent_puzzle_additional_data.0@ }
    else if op == 50 { coin_id + k.agg_sig_me_additional_data.0@ }
    else { Seq::<u8>::empty() }
}
/// the seven domain constants an AGG_SIG_UNSAFE message must not end with
spec fn is_domain_const(s: Seq<u8>, k: &ConsensusConstants) -> bool {
    s == k.agg_sig_me_additional_data.0@ || s == k.agg_sig_parent_additional_data.0@ || s == k.agg_sig_puzzle_additional_data.0@
    || s == k.agg_sig_amount_additional_data.0@ || s == k.agg_sig_puzzle_amount_additional_data.0@
    || s == k.agg_sig_parent_amount_additional_data.0@ || s == k.agg_sig_parent_puzzle_additional_data.0@
}
/// `s` ends with `t` (vstd's Seq::is_suffix_of: t.len() <= s.len() and the last t.len() elements of s are t)
spec fn ends_with_spec(s: Seq<u8>, t: Seq<u8>) -> bool { t.is_suffix_of(s) }
