#!/bin/bash
# usage: tools_pipeline2.sh <seed-id> [...]   — like tools_recheck.sh, but on the second pipeline: the snapshot worktree
# /var/tmp/repo-dev with its own side-car / Kani crate copies and cache, so that it can run next to a check on /repo.
# (Tooling for confirming seeded changes only; the registered checks always read /repo.)
D=${PIPE_REPO:-/var/tmp/repo-dev}; SFX=${PIPE_SFX:-2}
export VERIF_REPO=$D VERIF_CACHE=/var/tmp/verif-cache$SFX VERIF_REPLAY_CRATE=/var/tmp/replay-dev$SFX VERIF_KANI_CRATE=/var/tmp/kani-dev$SFX VERIF_EVIDENCE_DIR=/verif/.cache/evidence-mut$SFX
mkdir -p $VERIF_CACHE/gen $VERIF_EVIDENCE_DIR
# sync the crate copies with /verif (paths rewritten to the snapshot)
mkdir -p $VERIF_REPLAY_CRATE/src $VERIF_KANI_CRATE/src
for f in /verif/replay/src/*.rs /verif/replay/build.rs /verif/replay/Cargo.toml; do
  t=$VERIF_REPLAY_CRATE/${f#/verif/replay/}; sed "s|/repo/|$D/|g" $f > $t.new; cmp -s $t.new $t && rm $t.new || mv $t.new $t
done
for f in /verif/kani/src/*.rs /verif/kani/Cargo.toml; do
  t=$VERIF_KANI_CRATE/${f#/verif/kani/}; sed "s|/repo/|$D/|g" $f > $t.new; cmp -s $t.new $t && rm $t.new || mv $t.new $t
done
[ "$(git -C $D rev-parse HEAD)" = "$(git -C /repo rev-parse HEAD)" ] || git -C $D checkout -q --detach $(git -C /repo rev-parse HEAD)
[ -z "$(git -C $D status --porcelain --untracked-files=no)" ] || { echo "$D dirty"; exit 9; }
for id in "$@"; do
  prop=${id%%-*}
  echo "######## $id"
  git -C $D apply /verif/seeded/$id/patch.diff || { echo "patch does not apply"; continue; }
  (cd /verif && ./check $prop 2>&1 | grep -E "VIOLATION|UNDECIDED|HELD|VIOLATED|KNOWN" ; echo "check-exit=${PIPESTATUS[0]}")
  git -C $D checkout -q -- .
done
