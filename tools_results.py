#!/usr/bin/env python3
"""usage: tools_results.py <log> [<log> ...]   — merge the logs of tools_recheck.sh / tools_pipeline2.sh runs into
seeded/RESULTS.json (id -> exit code, first failing obligations, undecided reasons); later logs override earlier ones."""
import json, os, re, sys
out_path = os.path.join(os.path.dirname(os.path.abspath(__file__)), "seeded", "RESULTS.json")
res = json.load(open(out_path)) if os.path.exists(out_path) and "--fresh" not in sys.argv else {}
for log in [a for a in sys.argv[1:] if not a.startswith("--")]:
    t = open(log).read()
    for blk in re.split(r"^#{8} ", t, flags=re.M)[1:]:
        sid = blk.split("\n", 1)[0].strip()
        m = re.search(r"check-exit=(\d+)", blk)
        if not m:
            continue
        obl = re.findall(r"^VIOLATION .*?obligation=(\S+)", blk, flags=re.M)[:4]
        und = [u[:160].replace('"', "'") for u in re.findall(r"^(UNDECIDED .*)$", blk, flags=re.M)[:2]]
        res[sid] = {"exit": int(m.group(1)), "obligations": ";".join(obl) + (";" if obl else ""), "undecided": ";".join(und) + (";" if und else "")}
json.dump(dict(sorted(res.items())), open(out_path, "w"), indent=0)
bad = {k: v["exit"] for k, v in res.items() if v["exit"] != 1}
print(len(res), "seeds;", "not detected:", bad if bad else "none")
