#!/bin/bash
# Re-run every stored seeded change against the current checks; writes seeded/RESULTS.json (id -> exit code, first violation lines)
cd /repo && [ -z "$(git status --porcelain --untracked-files=no)" ] || { echo "/repo dirty"; exit 9; }
OUT=/verif/seeded/RESULTS.json
echo "{" > $OUT.tmp
first=1
for d in /verif/seeded/*/; do
  id=$(basename $d); prop=${id%%-*}
  git -C /repo apply $d/patch.diff || { echo "patch $id does not apply"; continue; }
  log=$(cd /verif && VERIF_EVIDENCE_DIR=/verif/.cache/evidence-mut ./check $prop 2>&1); code=$?
  git -C /repo checkout -q -- .
  obl=$(echo "$log" | grep -E "^VIOLATION" | sed -E 's/.*obligation=([^ ]+).*/\1/' | head -4 | tr '\n' ';')
  und=$(echo "$log" | grep -E "^UNDECIDED" | cut -c1-160 | head -2 | tr '\n' ';' | sed 's/"/'"'"'/g')
  [ $first = 1 ] || echo "," >> $OUT.tmp; first=0
  printf ' "%s": {"exit": %d, "obligations": "%s", "undecided": "%s"}' "$id" $code "$obl" "$und" >> $OUT.tmp
  echo "$id exit=$code $obl"
done
echo "}" >> $OUT.tmp; mv $OUT.tmp $OUT
