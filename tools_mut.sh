#!/bin/sh
# usage: tools_mut.sh <Cxx> <file-rel-to-/repo> <sed-expr>   — apply a one-line mutation, run the check, revert
set -u
cd /repo && sed -i "$3" "$2" && git diff --stat | tail -1
cd /verif && ./check "$1"; echo "exit=$?"
cd /repo && git checkout -- .
