#!/bin/sh
# usage: tools_mut.sh <Cxx> <file-rel-to-/repo> <sed-expr>   — apply a one-line mutation, run the check, revert
# refuses to run when /repo has uncommitted changes (so a pending fix can never be lost)
set -u
cd /repo
if [ -n "$(git status --porcelain --untracked-files=no)" ]; then echo "tools_mut: /repo has uncommitted changes; commit or stash first"; exit 3; fi
sed -i "$3" "$2" && git diff --stat | tail -1
cd /verif && VERIF_EVIDENCE_DIR=/verif/.cache/evidence-mut ./check "$1"; echo "exit=$?"
cd /repo && git checkout -- "$2"
